#!/usr/bin/env python3
"""Regenerates MANIFEST.json from the table below (keeps it schema-valid at all times)."""
import json, os
HERE = os.path.dirname(os.path.abspath(__file__))
TB = "Trusts CPython typing/ast, pydantic.v1, attrs/dataclasses introspection and the oracle code in j2mverif/ (exercised against the pre-fix tree and seeded breakages); sqlmodel is a stub. Held on the executions produced, not a proof."
CHECKS = {
    "C01": dict(category="exploration", technique="runtime monitoring: acceptance monitor replaying every sample against the loaded emitted module (pydantic parse_obj + independent structural acceptor)",
                text="Every generated execution (sample list x options) is replayed against the module obtained by executing the emitted text.", note=TB, ref="4 C01"),
    "C02": dict(category="exploration", technique="runtime monitoring: tightness monitor - sample values routed to every position of the loaded class graph must justify each Optional / union member / Literal / Any",
                text="Per execution, every position of the emitted class graph is checked against the multiset of sample values routed to it; 60-300-deep lists are judged on the IR (no module can spell them).", note=TB, ref="4 C02"),
    "C03": dict(category="exploration", technique="runtime monitoring: load monitor (compile+exec of emitted text, annotations evaluated in scope) + ast census over key-style workloads",
                text="Every emitted module is executed with only its own imports and its annotations evaluated in scope; names are censused from the ast.", note=TB, ref="4 C03"),
    "C04": dict(category="translation_validation", technique="runtime monitoring: per emitted program, class table from framework introspection compared with an independent rendering of the registry IR",
                text="Translation validation per emitted program: loaded module vs independent rendering of ModelRegistry.models_map, field by field; field names also against a generator object made for a neutrally named copy of the model.", note=TB, ref="4 C04"),
    "C05": dict(category="exploration", technique="runtime monitoring: merge monitor wrapped around ModelRegistry.merge_models (snapshot, union-find reference partition, registry and pointer-graph walk)",
                text="All similarity graphs on <=5 models (exhaustive; n=6 sampled in quick, complete in thorough) through a table-driven comparator, plus random inputs with the real comparators; key sets that coincide when joined with a separator; each merge_models call is observed by the monitor.", note=TB, ref="4 C05"),
    "C06": dict(category="exploration", technique="runtime monitoring: byte comparison of outputs of the same generations executed in fresh processes under different PYTHONHASHSEED values and perturbed heap layouts (library batch runner + real CLI subprocesses)",
                text="Each case is generated in >=7 process environments; any differing byte is a violation.", note=TB + " Memory layouts are perturbed, not enumerated.", ref="4 C06"),
    "C07": dict(category="exploration", technique="runtime monitoring: canonical unfolding of the loaded emitted class graph compared across all permutations / duplications of the sample list",
                text="Per base list all permutations (<=4 samples) and five duplication patterns are generated and compared canonically.", note=TB, ref="4 C07"),
    "C08": dict(category="exploration", technique="runtime monitoring: normal-form predicate on the IR at the generate()/merge_models() boundary, second-pass no-op monitor, ast scan of emitted annotation source",
                text="Exhaustive over multisets of <=2 (thorough: <=3) values from a 40-value universe in one field, plus random inputs.", note=TB, ref="4 C08"),
    "C09": dict(category="exploration", technique="runtime monitoring: first-match oracle on generate() results, resolve-soundness oracle over the accepted-string corpus (all subsets), disabled-type monitor, parse/render/parse monitor",
                text="Grammar-generated strings x ordered sub-registries (quick 200, thorough all 1957); resolve() exhaustively over subsets of each registry; --disable-str-serializable-types on a Cli object run / configured twice.", note=TB, ref="4 C09"),
    "C10": dict(category="exploration", technique="runtime monitoring: evaluated annotations of the loaded emitted module compared with the documented literal rule and the observed plain strings",
                text="Sets of 0-17 hostile strings around every boundary x max_literals 0..17 x frameworks x positions.", note=TB, ref="4 C10"),
    "C11": dict(category="exploration", technique="runtime monitoring: framework field tables (alias / metadata) of the loaded module checked for injectivity and exact recovery of every key; class-name census",
                text="Key-style and random hostile keys in the documented domain x unicode option x 4 frameworks; out-of-domain finding probes.", note=TB, ref="4 C11"),
    "C12": dict(category="exploration", technique="runtime monitoring: differential comparison of the loaded class tables of the flat and nested renderings + ast placement census",
                text="Tree-shaped inputs (precondition computed from the registry) x frameworks; flat completeness on arbitrary graphs; object chains up to 96 levels; every second case renders each layout from its own inference run.", note=TB, ref="4 C12"),
    "C13": dict(category="exploration", technique="runtime monitoring: independent dict-vs-model decision per object occurrence compared with the annotations of the loaded module (library path and real CLI subprocesses)",
                text="Inputs x field-name lists x regex lists incl. anchor-sensitive alternations through the CLI, near-miss field names, and a Cli object re-configured from wider dict-keys options.", note=TB, ref="4 C13"),
    "C14": dict(category="exploration", technique="runtime monitoring: call histories (incl. sys.monitoring failpoints) in one process, every output compared with the same call run alone in a pristine forked process; state digest steers the workload",
                text="Histories of 2-6 operations incl. injected mid-render failures, re-renders, direct generator calls (also generate() twice), types_style overrides, one MetadataGenerator kept for several documents, implicit-registry generations, and one Cli object configured / run several times.", note=TB, ref="4 C14"),
    "C15": dict(category="exploration", technique="runtime monitoring: real threads under 1us switch interval with seeded sys.monitoring LINE yield injection; per-thread output vs solo output; overlap of render windows observed",
                text="Single calls from a fresh worker thread and schedules of 2-8 concurrent pipelines (library pipelines; Cli objects writing -o files into one shared directory); overlapping windows must actually be observed.", note=TB + " Schedules are sampled, not enumerated.", ref="4 C15"),
    "C16": dict(category="exploration", technique="runtime monitoring: real CLI subprocesses; stdout after the header / -o file compared with the library text obtained by an independent reference front end",
                text="File splittings, lookups, -m/-l, globs, json/yaml/ini x all documented options.", note=TB, ref="4 C16"),
    "C17": dict(category="fault_enumeration", technique="runtime monitoring: fault injection into real CLI subprocesses (fault kinds x positions x target states, sys.monitoring failpoints via sitecustomize) observed by exit status, stdout, target bytes, audit-hook trace and strace",
                text="The list of fault kinds is enumerated completely (x position x target state); failpoints sampled in quick, every index in thorough; four kinds also through a Cli object in a process with another sys.argv.", note=TB, ref="4 C17"),
    "C18": dict(category="exploration", technique="runtime monitoring: instance monitor - every routed sample object is passed to the emitted attrs/dataclass class; attributes compared with the path-wise parse of the original / identity",
                text="Pseudo-typed fields at Optional/List/Dict paths up to depth 3, empties and nulls x attrs/dataclasses x converters on/off.", note=TB, ref="4 C18"),
    "C19": dict(category="exploration", technique="runtime monitoring: ast of real CLI stdout under hostile argv (quote runs, backslashes, newlines, non-ASCII in preamble, file names, patterns); nonce-tagged preamble located between imports and classes",
                text="Hostile argv / preamble texts x frameworks x layouts through real subprocesses; 1 in 5 on a Cli object that ran before with another preamble; a failing command line is judged against a twin differing only in the hostile text.", note=TB, ref="4 C19"),
}
NOT_YET = {}
props = [json.loads(l) for l in open(os.path.join(HERE, "properties.jsonl"))]
checks = []
na = []
for p in props:
    pid = p["id"]
    if pid in CHECKS:
        c = CHECKS[pid]
        checks.append({
            "property_id": pid,
            "quick_cmd": f"bin/check {pid} --tier quick",
            "thorough_cmd": f"bin/check {pid} --tier thorough",
            "evidence_file": f"evidence/{pid}.json",
            "replay_cmd_template": f"bin/check {pid} --replay {{path}}",
            "engine": "j2mverif",
            "level_claimed": {"category": c["category"], "text": c["text"], "design_ref": c["ref"]},
            "level_note": c["note"],
            "technique": c["technique"],
        })
    else:
        na.append({"property_id": pid, "reason": NOT_YET.get(pid, "check not built yet in this revision of /verif (runtime monitoring applies; see DESIGN.md section 4)")})
m = {
    "version": 1,
    "setup_cmd": "PYTHONPATH=/repo:/verif:/verif/stubs /venv/bin/python -m j2mverif.selfcheck",
    "hooks": {"guard": "J2M_VERIF", "enable": "no source hooks in /repo: monitors attach from /verif (wrappers, sys.monitoring, audit hook via PYTHONPATH sitecustomize); J2M_VERIF=1 is set by bin/check for its children",
              "baseline_off_cmd": "cd /repo && /venv/bin/python -m pytest -ra -q -p no:cacheprovider --timeout=900 --continue-on-collection-errors",
              "source_commits": [], "add_only": True},
    "engines": [{"name": "j2mverif", "path": "j2mverif/", "serves_properties": sorted(CHECKS), "kind_free_text": "runtime monitors over generated workloads, sharded over subprocess workers"}],
    "checks": checks,
    "notes": "Runtime monitoring only. See DESIGN.md. known_findings.json lists genuine defects (open / fixed).",
    "not_applicable": na,
}
json.dump(m, open(os.path.join(HERE, "MANIFEST.json"), "w"), indent=1)
print("checks:", [c["property_id"] for c in checks], "not claimed:", [n["property_id"] for n in na])
