"""Minimal stand-in for sqlmodel (not installable offline): enough to load generated code."""
import pydantic.v1 as _p
class SQLModel(_p.BaseModel):
    def __init_subclass__(cls, table=False, **kw):
        super().__init_subclass__(**kw)
        cls.__table_flag__ = table
def Field(default=..., *, primary_key=False, foreign_key=None, **kw):
    fi = _p.Field(default, **kw)
    fi.extra["primary_key"] = primary_key
    return fi
