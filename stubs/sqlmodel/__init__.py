"""Minimal stand-in for sqlmodel (not installable offline): enough to load generated code.
Field mirrors sqlmodel.Field's calling convention (default / default_factory are both optional keywords)."""
import pydantic.v1 as _p
from pydantic.v1.fields import Undefined as _Undefined


class SQLModel(_p.BaseModel):
    def __init_subclass__(cls, table=False, **kw):
        super().__init_subclass__(**kw)
        cls.__table_flag__ = table


def Field(default=_Undefined, *, default_factory=None, primary_key=False, foreign_key=None, **kw):
    if default_factory is not None:
        fi = _p.Field(default_factory=default_factory, **kw) if default is _Undefined else _p.Field(default, default_factory=default_factory, **kw)
    else:
        fi = _p.Field(default, **kw)
    fi.extra["primary_key"] = primary_key
    return fi
