"""Shard worker: runs the cases of one shard of one check in this process, one JSON result line per case."""
import importlib
import json
import signal
import sys
import traceback
import faulthandler


class CaseTimeout(BaseException):
    pass


def _alarm(signum, frame):
    raise CaseTimeout()


def main():
    fin, fout = sys.argv[1], sys.argv[2]
    with open(fin) as f:
        job = json.load(f)
    mod = importlib.import_module(f"j2mverif.checks.{job['check'].lower()}")
    if hasattr(mod, "setup_worker"):
        mod.setup_worker()
    signal.signal(signal.SIGALRM, _alarm)
    timeout = float(job["timeout"])
    with open(fout, "w") as out:
        for i, case in job["cases"]:
            signal.setitimer(signal.ITIMER_REAL, timeout)
            try:
                r = mod.run_case(case)
            except CaseTimeout:
                r = {"status": "inconclusive", "why": "case timeout", "witnesses": []}
            except BaseException as e:  # harness failure, never a verdict on the repository
                signal.setitimer(signal.ITIMER_REAL, 0)
                r = {"status": "inconclusive", "why": f"harness error {type(e).__name__}: {e}"[:300],
                     "trace": traceback.format_exc()[-2000:], "witnesses": []}
            finally:
                signal.setitimer(signal.ITIMER_REAL, 0)
            out.write(json.dumps({"i": i, "r": r}, default=repr) + "\n")
            out.flush()


if __name__ == "__main__":
    faulthandler.enable()
    main()
