"""Shard worker: runs the cases of one shard of one check in this process, one JSON result line per case."""
import importlib
import json
import signal
import sys
import traceback
import faulthandler


class CaseTimeout(BaseException):
    pass


def _alarm(signum, frame):
    raise CaseTimeout()


def main():
    fin, fout = sys.argv[1], sys.argv[2]
    with open(fin) as f:
        job = json.load(f)
    mod = importlib.import_module(f"j2mverif.checks.{job['check'].lower()}")
    if hasattr(mod, "setup_worker"):
        mod.setup_worker()
    # function-level coverage of the repository code by this shard (sys.monitoring, each code object reported once)
    reached = set()
    try:
        mon = sys.monitoring
        mon.use_tool_id(mon.COVERAGE_ID, "j2mverif-coverage")

        def _start(code, offset):
            fn = code.co_filename
            i = fn.find("/json_to_models/")
            if i >= 0:
                reached.add(fn[i + 1:] + "::" + code.co_qualname)
            return mon.DISABLE

        mon.register_callback(mon.COVERAGE_ID, mon.events.PY_START, _start)
        mon.set_events(mon.COVERAGE_ID, mon.events.PY_START)
    except Exception:
        pass
    signal.signal(signal.SIGALRM, _alarm)
    timeout = float(job["timeout"])
    with open(fout, "w") as out:
        for i, case in job["cases"]:
            signal.setitimer(signal.ITIMER_REAL, timeout)
            try:
                r = mod.run_case(case)
            except CaseTimeout:
                r = {"status": "inconclusive", "why": "case timeout", "witnesses": []}
            except BaseException as e:  # harness failure, never a verdict on the repository
                signal.setitimer(signal.ITIMER_REAL, 0)
                r = {"status": "inconclusive", "why": f"harness error {type(e).__name__}: {e}"[:300],
                     "trace": traceback.format_exc()[-2000:], "witnesses": []}
            finally:
                signal.setitimer(signal.ITIMER_REAL, 0)
            out.write(json.dumps({"i": i, "r": r}, default=repr) + "\n")
            out.flush()
    try:
        with open(fout + ".cov", "w") as f:
            json.dump(sorted(reached), f)
    except Exception:
        pass


if __name__ == "__main__":
    faulthandler.enable()
    main()
