"""C14 - a generation is independent of what the process did before.
Histories of <=4 operations run in one worker process; every successful operation's output is compared with the same
operation executed alone in a pristine process (a fork of a zygote that has only imported the library)."""
import json
import os
import pickle
import struct
import sys
import traceback

from .. import gen
from ..common import Verdict, digest, rng_for, run_shards, seed, tier

PROP = "C14"
N = {"quick": 4000, "thorough": 60000}
FWS = ["base", "pydantic", "attrs", "dataclasses", "sqlmodel"]


class InjectedFault(RuntimeError):
    pass


# --datetime / --disable-str-serializable-types in Cli histories
CLI_REGISTRY_OPTIONS = True


# ---------------------------------------------------------------------------------------------------------
# case generation

def gen_cases_for(seed_, n):
    cases = []
    for i in range(n):
        rng = rng_for(PROP, seed_, i)
        inputs = []
        for k in range(rng.randint(1, 3)):
            prof = rng.choice(["tree", "tree", "small", "strings", "merge", "shared", "unicode", "oddnames", "fwnames"])
            if prof == "fwnames":
                # keys that one framework renames on its own (pydantic / sqlmodel: BaseModel attributes; attrs: self) and the others
                # keep: what one framework made of a key must not reach the next framework's rendering
                ks = rng.sample(["json", "copy", "validate", "self", "dict", "schema", "fields", "construct", "parse_obj", "from", "metadata"], 4)
                samples = [{ks[0]: 1, ks[1]: "s", "inner": {ks[2]: 1.5, ks[3]: [1], ks[0]: "t"}, "plain": 2}]
                merge = [["exact"]]
            elif prof == "shared":
                # nested layout puts the shared child into the root and injects absolute paths ('Root.Child') for it
                a, b, c = rng.sample(["alpha", "beta", "gamma", "delta", "omega", "sigma"], 3)
                child = {"x": 1, "y": rng.choice([2, "s", 2.5])}
                samples = [{a: {"first": dict(child), b: {"inner": dict(child), "z": k}}, c: {"k": [1]}}]
                merge = [["exact"]]
            elif prof == "oddnames":
                # model names that label conversion rewrites: leading digit 0 ('0day' -> '_day...'), names that coincide only after
                # conversion in an ancestor/descendant pair ('größe' containing 'grosse'), punctuation
                outer, inner_k = rng.choice([("größe", "grosse"), ("0day_reports", "1st_items"), ("a-b", "a.b"), ("naïve", "naive"), ("0x_items", "00_items"),
                                                 # class names a framework may treat specially (pydantic's inner Config, typing names)
                                                 ("config", "settings"), ("model", "config"), ("Config", "fields"), ("list", "optional")])
                samples = [{outer: {inner_k: {"v": 1, "w": "s"}, "n": 2}, "plain": 1}]
                if rng.random() < 0.5:
                    samples.append({outer: {inner_k: {"v": 2}, "n": 3}})
                merge = [["exact"]]
            elif prof == "unicode":
                ks = rng.sample(["données", "ключ", "straße", "naïve", "Ünï", "λέξη", "émigré", "ñandú", "plain", "other"], 4)
                samples = [{ks[0]: 1, ks[1]: {ks[2]: "s", ks[3]: [1]}}, {ks[0]: 2, ks[1]: {ks[2]: "t"}}]
                merge = [["exact"]]
            elif prof == "tree":
                from .c12 import tree_samples
                samples = tree_samples(rng)
                merge = [["exact"]]
            else:
                samples = gen.json_case(rng, profile=prof)["samples"]
                merge = gen.merge_policy(rng)
            inputs.append({"samples": samples, "merge": merge, "convert_unicode": rng.random() < 0.7,
                           "registry": rng.choice([["IntString", "FloatString", "BooleanString"], gen.STR_TYPES]),
                           "max_literals": rng.choice([0, 5, 10, 16]), "name": f"Root{k}", "prof": prof})
        ops = []
        have = set()
        for _ in range(rng.randint(2, 4)):
            r = rng.random()
            k = rng.randrange(len(inputs))
            fw = rng.choice(FWS)
            flat = rng.random() < 0.5
            if r < 0.3 or not have:
                ops.append({"op": "gen", "input": k, "fw": fw, "flat": flat})
                have.add(k)
            elif r < 0.55:
                ops.append({"op": "rerender", "input": rng.choice(sorted(have)), "fw": fw, "flat": flat})
            elif r < 0.62:
                ops.append({"op": "direct", "input": rng.choice(sorted(have)), "fw": fw})
            elif r < 0.68 and len(inputs) >= 2:
                a, b = rng.sample(range(len(inputs)), 2)
                ops.append({"op": "direct_interleaved", "input": a, "other": b, "fw": fw})
            elif r < 0.86:
                ops.append({"op": "failing", "input": rng.choice(sorted(have)), "fw": fw, "flat": flat,
                            "how": rng.choice(["failpoint", "failpoint", "field_data"]), "at": rng.randint(1, 60)})
            elif r < 0.88:
                ops.append({"op": "gen_other_unicode", "input": k, "fw": fw, "flat": flat})
            elif r < 0.90:
                # one MetadataGenerator object kept for several documents; generator objects asked to generate() twice
                if rng.random() < 0.5:
                    ops.append({"op": "direct_twice", "input": k, "fw": fw, "flat": flat})
                    have.add(k)
                else:
                    for k2 in range(len(inputs)):
                        ops.append({"op": "gen_shared_generator", "input": k2, "fw": fw, "flat": True, "reg": inputs[0]["registry"]})
                    # ... then a document with the same keys whose strings belong to a narrower class (float -> int, datetime -> date)
                    ops.append({"op": "gen_shared_generator", "input": rng.randrange(len(inputs)), "fw": fw, "flat": True, "reg": inputs[0]["registry"], "variant": "narrow"})
                    ops.append({"op": "gen_shared_generator", "input": 0, "fw": fw, "flat": True, "reg": inputs[0]["registry"]})
                    have.update(range(len(inputs)))
            elif r < 0.94:
                # a generation that passes a types_style override (library-only option), then the same framework without it
                ops.append({"op": "styled", "input": k, "fw": fw, "flat": flat, "style": rng.choice(["no_literals", "actual_type", "both"])})
                ops.append({"op": "gen", "input": k, "fw": fw, "flat": flat})
                have.add(k)
            else:
                ops.append({"op": "implicit", "strings": rng.sample(["2018-01-02", "10:30:00", "1", "2.5", "true", "abc", "2018-01-02T10:30:00"], 3), "fw": fw})
        if i % 5 == 2:
            # one Cli object configured and run several times (parse_args + run, run again) with different option sets
            ops = []
            for _ in range(rng.randint(2, 4)):
                extra = []
                if rng.random() < 0.4:
                    extra += ["--max-strings-literals", str(rng.choice([0, 2, 5, 16]))]
                if rng.random() < 0.4:
                    extra += ["--dkf"] + rng.sample(["first", "inner", "k", "plain", "meta"], rng.randint(1, 2))
                if rng.random() < 0.3:
                    extra += ["--dkr", rng.choice([r"\\d+", "[a-z]", "k.*"])]
                if rng.random() < 0.4:
                    extra += ["--preamble", rng.choice(["# preamble A", "X = 1", "  ", ""])]
                if rng.random() < 0.4:
                    extra += ["--merge"] + rng.choice([["exact"], ["percent_50"], ["number_2", "percent_90"], ["percent_90", "percent_50"]])
                if rng.random() < 0.3:
                    extra += ["--disable-unicode-conversion"]
                if rng.random() < 0.3:
                    extra += ["--strings-converters"]
                if rng.random() < 0.1:
                    # a command line that fails (in validation, in option conversion, or only when the generator is built): the object is used again afterwards
                    extra += rng.choice([["--merge", "exact", "fuzzy_1"], ["--code-generator-kwargs", "nosuchkwarg=1"], ["--merge", "percent_abc"],
                                         ["--code-generator", "x.Y"], ["--dkr", "k(\\d+"], ["--code-generator-kwargs", "meta"]])
                if CLI_REGISTRY_OPTIONS and rng.random() < 0.35:
                    extra += rng.choice([["--datetime"], ["--disable-str-serializable-types", "int"], ["--disable-str-serializable-types", "float", "bool"],
                                         ["--datetime", "--disable-str-serializable-types", "IsoDateString"]])
                k = rng.randrange(len(inputs))
                flat = True
                if inputs[k]["prof"] == "tree" and rng.random() < 0.6:
                    # nested layout is claimed for tree-shaped graphs: the tree inputs are trees under an exact-match merge policy
                    flat = False
                    if "--merge" in extra:
                        j = extra.index("--merge")
                        e = j + 1
                        while e < len(extra) and not extra[e].startswith("--"):
                            e += 1
                        del extra[j:e]
                    extra = [x for x in extra]
                    extra += ["--merge", "exact"]
                    for opt in ("--dkf", "--dkr"):
                        if opt in extra:
                            j = extra.index(opt)
                            e = j + 1
                            while e < len(extra) and not extra[e].startswith("--"):
                                e += 1
                            del extra[j:e]
                ops.append({"op": "cli", "input": k, "fw": rng.choice(FWS), "flat": flat, "extra": extra, "again": rng.random() < 0.3,
                            "fmt": "yaml" if rng.random() < 0.2 else "json"})
            if rng.random() < 0.5:
                ops.append({"op": "implicit", "strings": rng.sample(["2018-01-02", "10:30:00", "1", "2.5", "true", "abc", "2018-01-02T10:30:00"], 3), "fw": rng.choice(FWS)})
            cases.append({"i": i, "inputs": inputs, "ops": ops})
            continue
        if not any(o["op"] in ("failing", "rerender") for o in ops):
            ops.insert(1, {"op": "failing", "input": sorted(have)[0], "fw": "pydantic", "flat": False, "how": "failpoint", "at": rng.randint(1, 40)})
            ops = ops[:4] if len(ops) > 4 and not any(o["op"] == "gen_shared_generator" for o in ops) else ops
        cases.append({"i": i, "inputs": inputs, "ops": ops})
    return cases


# ---------------------------------------------------------------------------------------------------------
# operations (executed both in the history process and alone in a pristine fork)

def _opts(inp, fw, flat, unicode_flip=False):
    return {"framework": fw, "flat": flat, "merge": inp["merge"], "max_literals": inp["max_literals"],
            "convert_unicode": inp["convert_unicode"] != unicode_flip, "registry": inp["registry"], "dkf": [], "dkr": [],
            "post_init_converters": False, "meta": False}


def narrow(v):
    """the same document with every string replaced by one of a narrower pseudo-type class (what an earlier class also accepts)"""
    import re
    if isinstance(v, dict):
        return {k: narrow(x) for k, x in v.items()}
    if isinstance(v, list):
        return [narrow(x) for x in v]
    if isinstance(v, str):
        if re.fullmatch(r"\s*[-+]?(\d+\.\d*|\.\d+|\d+[eE][-+]?\d+|nan|inf|-Infinity)\s*", v):
            return "7"
        if re.fullmatch(r"\d{4}-\d\d-\d\dT.*", v):
            return "2018-01-02"
        if re.fullmatch(r"\d\d:\d\d(:\d\d)?(\.\d+)?.*", v):
            return "2018-01-03"
    return v


class Failpoint:
    """source-free failpoint: raise at the k-th function start inside json_to_models/models/*"""
    TOOL = 3

    def __init__(self, at):
        self.at = at
        self.n = 0
        self.fired = False

    def __enter__(self):
        mon = sys.monitoring
        mon.use_tool_id(self.TOOL, "j2mverif-failpoint")

        def start(code, offset):
            if os.sep + "json_to_models" + os.sep + "models" + os.sep not in code.co_filename:
                return mon.DISABLE
            self.n += 1
            if self.n == self.at:
                self.fired = True
                raise InjectedFault(f"failpoint at call #{self.n}: {code.co_qualname}")

        mon.register_callback(self.TOOL, mon.events.PY_START, start)
        mon.set_events(self.TOOL, mon.events.PY_START)
        return self

    def __exit__(self, *a):
        mon = sys.monitoring
        mon.set_events(self.TOOL, 0)
        mon.register_callback(self.TOOL, mon.events.PY_START, None)
        mon.free_tool_id(self.TOOL)
        mon.restart_events()
        return False


def exec_op(state, inputs, op):
    """returns a JSON-serialisable result {'text':..} or {'raised': 'Type: msg'}"""
    from .. import driver
    kind = op["op"]
    try:
        if kind in ("gen", "gen_other_unicode"):
            inp = inputs[op["input"]]
            o = _opts(inp, op["fw"], op["flat"], unicode_flip=(kind == "gen_other_unicode"))
            run = driver.infer([(inp["name"], inp["samples"])], o)
            if kind == "gen":
                state[op["input"]] = run
            res = {"text": driver.render(run, o)}
            if not o["flat"] and not driver.is_tree(run.registry):
                res["outside_claim"] = True  # nested layout is claimed for tree-shaped graphs only: executed, not judged
            return res
        if kind == "gen_shared_generator":
            inp = inputs[op["input"]]
            o = dict(_opts(inp, op["fw"], op["flat"]), registry=op.get("reg") or inp["registry"])
            key = ("shared", tuple(o["registry"]))
            samples = narrow(inp["samples"]) if op.get("variant") == "narrow" else inp["samples"]
            run = driver.infer([(inp["name"], samples)], o, shared=state.get(key))
            state.setdefault(key, run)
            res = {"text": driver.render(run, o)}
            if not o["flat"] and not driver.is_tree(run.registry):
                res["outside_claim"] = True
            return res
        if kind == "direct_twice":
            inp = inputs[op["input"]]
            o = _opts(inp, op["fw"], True)
            run = state.get(op["input"])
            if run is None:
                run = state[op["input"]] = driver.infer([(inp["name"], inp["samples"])], o)
            gens = [driver.FW[op["fw"]](m, **driver.generator_kwargs(o)) for m in run.registry.models]
            out = []
            for rnd in range(1 if op.get("alone") else 2):
                out = []
                for g in gens:
                    imports, text = g.generate()
                    out.append([sorted(map(repr, imports)), text])
            return {"text": json.dumps(out)}
        if kind == "rerender":
            inp = inputs[op["input"]]
            o = _opts(inp, op["fw"], op["flat"])
            run = state.get(op["input"])
            if run is None:
                run = state[op["input"]] = driver.infer([(inp["name"], inp["samples"])], o)
            res = {"text": driver.render(run, o)}
            if not o["flat"] and not driver.is_tree(run.registry):
                res["outside_claim"] = True
            return res
        if kind == "direct":
            inp = inputs[op["input"]]
            o = _opts(inp, op["fw"], True)
            run = state.get(op["input"])
            if run is None:
                run = state[op["input"]] = driver.infer([(inp["name"], inp["samples"])], o)
            out = []
            # like generate_code does: construct every generator first (construction converts the model's name), then generate
            gens = [driver.FW[op["fw"]](m, **driver.generator_kwargs(o)) for m in run.registry.models]
            for g in gens:
                imports, text = g.generate()
                out.append([sorted(map(repr, imports)), text])
            return {"text": json.dumps(out)}
        if kind == "direct_interleaved":
            # two sets of generator objects alive at the same time (other input, other literal limit / unicode option):
            # construct A's generators, construct B's generators, then generate A
            inp, oth = inputs[op["input"]], inputs[op["other"]]
            o, o2 = _opts(inp, op["fw"], True), _opts(oth, op["fw"], True)
            run = state.get(op["input"]) or driver.infer([(inp["name"], inp["samples"])], o)
            state[op["input"]] = run
            gens = [driver.FW[op["fw"]](m, **driver.generator_kwargs(o)) for m in run.registry.models]
            if not op.get("alone"):
                run2 = state.get(op["other"]) or driver.infer([(oth["name"], oth["samples"])], o2)
                state[op["other"]] = run2
                gens2 = [driver.FW[op["fw"]](m, **driver.generator_kwargs(o2)) for m in run2.registry.models]
            out = []
            for g in gens:
                imports, text = g.generate()
                out.append([sorted(map(repr, imports)), text])
            return {"text": json.dumps(out)}
        if kind == "failing":
            inp = inputs[op["input"]]
            o = _opts(inp, op["fw"], op["flat"])
            run = state.get(op["input"])
            if run is None:
                run = state[op["input"]] = driver.infer([(inp["name"], inp["samples"])], o)
            if op["how"] == "failpoint":
                with Failpoint(op["at"]) as fp:
                    try:
                        driver.render(run, o)
                    except InjectedFault as e:
                        return {"injected": str(e)}
                return {"injected": None, "note": f"failpoint not reached ({fp.n} calls)"}
            base = driver.FW[op["fw"]]
            counter = {"n": 0}

            class Failing(base):
                def field_data(self, name, meta, optional):
                    counter["n"] += 1
                    if counter["n"] == max(1, op["at"] % 7):
                        raise InjectedFault("generator subclass raises in field_data")
                    return super().field_data(name, meta, optional)

            from json_to_models.models.base import generate_code
            from json_to_models.models.structure import compose_models, compose_models_flat
            try:
                generate_code((compose_models_flat if o["flat"] else compose_models)(run.registry.models_map), Failing,
                              class_generator_kwargs=driver.generator_kwargs(o))
            except InjectedFault as e:
                return {"injected": str(e)}
            return {"injected": None}
        if kind == "styled":
            from json_to_models.dynamic_typing import StringLiteral, StringSerializable
            from json_to_models.models.base import generate_code
            from json_to_models.models.structure import compose_models, compose_models_flat
            inp = inputs[op["input"]]
            o = _opts(inp, op["fw"], op["flat"])
            run = driver.infer([(inp["name"], inp["samples"])], o)
            style = {}
            if op["style"] in ("no_literals", "both"):
                style[StringLiteral] = {StringLiteral.TypeStyle.use_literals: op["fw"] == "attrs"}
            if op["style"] in ("actual_type", "both"):
                style[StringSerializable] = {StringSerializable.TypeStyle.use_actual_type: op["fw"] not in ("pydantic", "sqlmodel")}
            kw = dict(driver.generator_kwargs(o), types_style=style)
            res = {"text": generate_code((compose_models_flat if o["flat"] else compose_models)(run.registry.models_map), driver.FW[op["fw"]],
                                         class_generator_kwargs=kw)}
            if not o["flat"] and not driver.is_tree(run.registry):
                res["outside_claim"] = True
            return res
        if kind == "cli":
            import tempfile
            from json_to_models.cli import Cli
            inp = inputs[op["input"]]
            cli = state.get("cli")
            if cli is None:
                cli = state["cli"] = Cli()
            with tempfile.TemporaryDirectory(prefix="j2m_c14_") as td:
                # JSON text is YAML (flow style): the same document can be read through the YAML loader of the CLI
                path = os.path.join(td, "in.yaml" if op.get("fmt") == "yaml" else "in.json")
                if op.get("fmt") == "yaml":
                    # non-BMP characters literally (YAML does not pair \\uD83D\\uDE00 escapes the way JSON does); an unpaired surrogate
                    # cannot be written as UTF-8 and becomes a \\uXXXX escape, which both formats read as that surrogate
                    with open(path, "w", encoding="utf-8", errors="backslashreplace") as f:
                        json.dump(inp["samples"], f, ensure_ascii=False)
                else:
                    with open(path, "w") as f:
                        json.dump(inp["samples"], f)
                argv = ["-m", inp["name"], path, "-f", op["fw"], "-s", "flat" if op["flat"] else "nested"] + list(op["extra"])
                if op.get("fmt") == "yaml":
                    argv += ["-i", "yaml"]
                outpath = None
                if op.get("outname"):
                    # -o FILE; concurrent pipelines (C15) write their different files into one shared directory
                    outpath = os.path.join(op.get("outdir") or td, op["outname"])
                    argv += ["-o", outpath]
                try:
                    cli.parse_args(argv)
                except SystemExit as e:
                    return {"raised": f"SystemExit: {e.code}", "site": "argparse"}
                text = cli.run()
                if op.get("again"):
                    text = cli.run()
                if outpath:
                    with open(outpath, encoding="utf-8") as f:
                        text = f.read()
            # the header (timestamp, command line of this worker process) is not part of the comparison: it is the first
            # statement of the module, whatever its spelling
            body = text
            try:
                import ast
                first = ast.parse(text).body[0]
                if isinstance(first, ast.Expr) and isinstance(first.value, ast.Constant) and isinstance(first.value.value, str):
                    body = "\n".join(text.split("\n")[first.end_lineno:])
            except (SyntaxError, ValueError, IndexError):
                # text that does not parse (C03's subject): at least the time stamp must not take part in the comparison
                import re
                body = re.sub(r"(generated by json2python-models v\S+ at )[^\n]*", r"\1<t>", text, count=1)
            return {"text": body}
        if kind == "implicit":
            from json_to_models.generator import MetadataGenerator
            from json_to_models.models.base import generate_code
            from json_to_models.models.structure import compose_models_flat
            from json_to_models.registry import ModelRegistry
            g = MetadataGenerator()  # default (implicit, process-global) pseudo-type registry
            r = ModelRegistry()
            r.process_meta_data(g.generate(*[{"a": s, "b": [s]} for s in op["strings"]]), model_name="Implicit")
            r.merge_models(g)
            r.generate_names()
            return {"text": generate_code(compose_models_flat(r.models_map), driver.FW[op["fw"]])}
        raise ValueError(kind)
    except InjectedFault as e:
        return {"injected": str(e)}
    except Exception as e:
        if type(e).__name__ == "CaseTimeout":
            raise
        tb = traceback.extract_tb(e.__traceback__)
        site = next((f"{fr.filename.rsplit('/', 1)[-1]}:{fr.name}" for fr in reversed(tb) if "json_to_models" in fr.filename), "?")
        return {"raised": f"{type(e).__name__}: {e}"[:300], "site": site}


# ---------------------------------------------------------------------------------------------------------
# pristine zygote

ZYG = None


class Zygote:
    """a child forked before any operation ran; for every request it forks a grandchild that runs one operation alone"""

    def __init__(self):
        r1, w1 = os.pipe()
        r2, w2 = os.pipe()
        pid = os.fork()
        if pid == 0:
            os.close(w1)
            os.close(r2)
            self._serve(r1, w2)
            os._exit(0)
        os.close(r1)
        os.close(w2)
        self.w, self.r, self.pid = w1, r2, pid

    @staticmethod
    def _read(fd):
        hdr = b""
        while len(hdr) < 4:
            b = os.read(fd, 4 - len(hdr))
            if not b:
                return None
            hdr += b
        n = struct.unpack("<I", hdr)[0]
        buf = b""
        while len(buf) < n:
            b = os.read(fd, n - len(buf))
            if not b:
                return None
            buf += b
        return pickle.loads(buf)

    @staticmethod
    def _write(fd, obj):
        data = pickle.dumps(obj)
        os.write(fd, struct.pack("<I", len(data)) + data)

    def _serve(self, rfd, wfd):
        import signal
        signal.setitimer(signal.ITIMER_REAL, 0)
        while True:
            req = self._read(rfd)
            if req is None:
                return
            seq, inputs, op = req
            pr, pw = os.pipe()
            pid = os.fork()
            if pid == 0:
                os.close(pr)
                try:
                    signal.signal(signal.SIGALRM, signal.SIG_DFL)
                    signal.alarm(30)
                    res = exec_op({}, inputs, op)
                except BaseException as e:
                    res = {"raised": f"reference run failed: {type(e).__name__}: {e}"}
                self._write(pw, res)
                os._exit(0)
            os.close(pw)
            res = self._read(pr)
            os.close(pr)
            os.waitpid(pid, 0)
            self._write(wfd, (seq, res if res is not None else {"reference_died": True}))

    def alone(self, inputs, op):
        # every request carries a sequence number: if a per-case timeout interrupted an earlier exchange, its late
        # answer is still in the pipe and must not be taken for the answer to this request
        import signal
        self.seq = getattr(self, "seq", 0) + 1
        # the exchange itself is not interruptible by the per-case alarm (the grandchild has its own 30 s limit)
        old = signal.pthread_sigmask(signal.SIG_BLOCK, {signal.SIGALRM})
        try:
            self._write(self.w, (self.seq, inputs, op))
            while True:
                ans = self._read(self.r)
                if ans is None:
                    return None
                seq, res = ans
                if seq == self.seq:
                    return res
        finally:
            signal.pthread_sigmask(signal.SIG_SETMASK, old)


def setup_worker():
    global ZYG
    import warnings
    warnings.simplefilter("ignore")
    # import everything an operation needs *before* forking the zygote, run nothing
    from .. import driver  # noqa
    import json_to_models.models.structure  # noqa
    ZYG = Zygote()


def state_digest():
    """observation only: process-level mutable state of json_to_models"""
    import json_to_models.dynamic_typing as D
    from json_to_models.dynamic_typing.models_meta import AbsoluteModelRef
    from json_to_models.models.base import GenericModelCodeGenerator
    from .. import driver
    from json_to_models.dynamic_typing import StringLiteral
    return digest([
        [c.__name__ for c in D.registry.types], sorted((a.__name__, b.__name__) for a, b in D.registry.replaces),
        repr(getattr(AbsoluteModelRef.Context.data, "context", "<unset>")),
        [repr(g.default_types_style) for g in driver.FW.values()],
        StringLiteral.MAX_LITERALS, StringLiteral.MAX_STRING_LENGTH,
    ])


REF_CACHE = {}


def run_case(case):
    inputs = case["inputs"]
    state = {}
    wit = []
    d0 = state_digest()
    cnt = {"ops": 0, "ops_compared": 0, "failing_ops_injected": 0, "rerenders": 0, "direct_calls": 0, "digest_changes": 0, "implicit_ops": 0}
    ops = list(case["ops"])
    steered = False
    i = 0
    while i < len(ops):
        op = ops[i]
        i += 1
        cnt["ops"] += 1
        got = exec_op(state, inputs, op)
        d = state_digest()
        if d != d0 and not steered:
            # a changed digest is not a violation; steer: append operations that read the changed state
            cnt["digest_changes"] += 1
            steered = True
            k = next((o["input"] for o in ops if "input" in o), 0)
            ops += [{"op": "direct", "input": k, "fw": "pydantic"}, {"op": "implicit", "strings": ["2018-01-02", "1", "abc"], "fw": "base"}]
        if op["op"] == "failing":
            cnt["failing_ops_injected"] += int(bool(got.get("injected")))
            continue
        if got.get("outside_claim"):
            cnt["nested_non_tree_executed_not_judged"] = cnt.get("nested_non_tree_executed_not_judged", 0) + 1
            continue
        if op["op"] == "rerender":
            cnt["rerenders"] += 1
        if op["op"] == "direct":
            cnt["direct_calls"] += 1
        if op["op"] == "implicit":
            cnt["implicit_ops"] += 1
        if op["op"] == "styled":
            cnt["styled_ops"] = cnt.get("styled_ops", 0) + 1
        if op["op"] == "cli":
            cnt["cli_ops"] = cnt.get("cli_ops", 0) + 1
        # the same operation alone in a pristine process
        ref_op = dict(op)
        if op["op"] == "rerender":
            ref_op["op"] = "gen"  # rendering once from a fresh registry
        if op["op"] == "direct_interleaved":
            ref_op["alone"] = True  # the same generators without the other set alive
            cnt["direct_calls"] += 1
        if op["op"] == "direct_twice":
            ref_op["alone"] = True  # generate() once
            cnt["direct_calls"] += 1
        if op["op"] == "gen_shared_generator":
            cnt["shared_generator_ops"] = cnt.get("shared_generator_ops", 0) + 1
        key = digest([inputs[op["input"]] if "input" in op else None, ref_op])
        ref = REF_CACHE.get(key)
        if ref is None:
            ref = ZYG.alone(inputs, ref_op)
            if len(REF_CACHE) < 5000:
                REF_CACHE[key] = ref
        if ref is None or ref.get("reference_died"):
            return {"status": "inconclusive", "why": "reference process died", "witnesses": [], "counters": cnt}
        cnt["ops_compared"] += 1
        if op["op"] == "cli" and "raised" in got and "raised" in ref:
            cnt["cli_ops_failing_in_both"] = cnt.get("cli_ops_failing_in_both", 0) + 1
        hist = [o["op"] for o in ops[:i]]
        if "raised" in got and "raised" not in ref:
            wit.append({"property": PROP, "mechanism": f"raises-only-after-history:{op['op']}",
                        "msg": f"op #{i} {op['op']} raised {got['raised']} at {got.get('site')} after history {hist} but succeeds alone"})
        elif "raised" in ref and "raised" not in got:
            wit.append({"property": PROP, "mechanism": f"raises-only-alone:{op['op']}", "msg": f"op #{i} {op['op']} succeeds after {hist} but alone raises {ref['raised']}"})
        elif "text" in got and "text" in ref and got["text"] != ref["text"]:
            import difflib
            diff = "\n".join(list(difflib.unified_diff(ref["text"].split("\n"), got["text"].split("\n"), "alone", "in-history", lineterm="", n=0))[:12])
            prev = ops[i - 2]["op"] if i >= 2 else None
            wit.append({"property": PROP, "mechanism": f"output-depends-on-history:{op['op']}-after-{prev}",
                        "msg": f"op #{i} {op['op']} ({op.get('fw')}, flat={op.get('flat')}) after {hist[:-1]} differs from the same call alone: {diff}"[:700]})
        if wit:
            break
    nontrivial = any(o["op"] in ("failing", "rerender") for o in case["ops"])
    return {"status": "violated" if wit else "held", "witnesses": wit, "counters": cnt, "nontrivial": nontrivial, "digest": digest(case)}


def main():
    cases = gen_cases_for(seed(), N[tier()])
    v = Verdict(PROP, "exploration",
                "histories of 2-4 operations over 1-3 inputs (tree-shaped, small, pseudo-typed, merge-heavy): generate+render(fw, layout), "
                "re-render the same registry for another framework/layout, direct GeneratorClass(model).generate(), render that fails "
                "midway (sys.monitoring failpoint at the k-th call inside json_to_models/models/*, or a generator subclass raising in "
                "field_data), generation with the other unicode option on another registry, generation through the implicit default "
                "pseudo-type registry. Each successful operation is compared with the same operation run alone in a pristine process (fork "
                "of a zygote that only imported the library). A state digest after every op steers the history (observation, not verdict). "
                "non-trivial = history containing a failing op or a re-render",
                ["pristine process = fork of a zygote taken after import and before any operation",
                 "nested renders of non-tree graphs are executed as part of the history but their own output is not judged",
                 "unicode-conversion option is held fixed per registry"])
    results, infra = run_shards(PROP, cases, timeout_per_case=60)
    v.infra = infra
    for c, r in zip(cases, results):
        v.add(c, r, sample_view={"ops": c["ops"], "inputs": [x["samples"][:1] for x in c["inputs"]]})
    return v.finish(floor_nontrivial=100, monitors_required=("ops_compared", "failing_ops_injected", "rerenders", "direct_calls", "implicit_ops"))
