"""C17 - a failing run reports failure and leaves existing output untouched.
Fault enumeration over real CLI subprocesses: each fault kind x position of the faulty file x existing/absent -o target,
plus source-free failpoints swept over the pipeline's function starts.  Monitors: exit status, stdout, bytes of the
-o target, audit-hook trace (no write-open of the target before the text is complete), strace in the thorough tier."""
import json
import os
import re
import shutil
import subprocess
import tempfile
from concurrent.futures import ThreadPoolExecutor

from ..common import NPROC, PY, VERIF, Verdict, child_env, digest, rng_for, seed, tier

PROP = "C17"
SENTINEL = b"# precious previous content\nKEEP = 'me'\n\x00\xff binary tail"
GOOD = [{"id": 1, "name": "a", "tags": ["x"], "child": {"k": 1.5}}, {"id": 2, "name": "b", "tags": [], "child": {"k": 2}}]

FAILGEN = '''
import os
from json_to_models.models.pydantic import PydanticModelCodeGenerator


class FailingGenerator(PydanticModelCodeGenerator):
    calls = 0

    def field_data(self, name, meta, optional):
        FailingGenerator.calls += 1
        if FailingGenerator.calls == int(os.environ.get("J2M_FAIL_FIELD", "1")):
            raise RuntimeError("generator fails at field %d" % FailingGenerator.calls)
        return super().field_data(name, meta, optional)
'''

# fault kind -> (file name, raw content or None for "missing", extra argv, format, lookup)
FAULTS = {
    "missing-file": dict(content=None),
    "missing-yaml-file": dict(content=None, fmt="yaml"),
    "missing-ini-file": dict(content=None, fmt="ini"),
    "directory-as-json-file": dict(content="<dir>"),
    "directory-as-ini-file": dict(content="<dir>", fmt="ini"),
    "lookup-key-missing-after-list": dict(content='{"pages": [{"items": [{"a": 1}]}, {"items": []}]}', lookup="pages.itemz"),
    "key-lookup-on-list-root": dict(content='[{"data": [{"a": 1}]}]', lookup="data"),
    "malformed-json": dict(content='[{"a": 1}, {"a": '),
    "empty-file": dict(content=""),
    "malformed-yaml": dict(content="a: [1, 2\nb: {", fmt="yaml"),
    "malformed-ini": dict(content="no section header\nk = v\n", fmt="ini"),
    "lookup-key-missing": dict(content='{"data": [{"a": 1}]}', lookup="items"),
    "lookup-into-scalar": dict(content='{"data": 5}', lookup="data.x"),
    "lookup-through-list": dict(content='{"data": [{"x": {"a": 1}}]}', lookup="data.x"),
    "lookup-selects-scalar": dict(content='{"data": "str"}', lookup="data"),
    "lookup-selects-null": dict(content='{"data": null}', lookup="data"),
    "lookup-selects-zero": dict(content='{"data": {"x": 0}}', lookup="data.x"),
    "lookup-selects-false": dict(content='{"data": false}', lookup="data"),
    "lookup-selects-empty-string": dict(content='{"data": ""}', lookup="data"),
    "top-level-null": dict(content="null"),
    "top-level-false": dict(content="false"),
    "top-level-empty-string": dict(content='""'),
    "empty-yaml-document": dict(content="# only a comment\n", fmt="yaml"),
    "top-level-scalar": dict(content="42"),
    "list-of-scalars": dict(content="[1, 2, 3]"),
    "list-with-one-scalar": dict(content='[{"a": 1}, 7]'),
    "non-string-yaml-keys": dict(content="- {1: a, 2: b}\n", fmt="yaml"),
    "bad-merge-policy": dict(argv=["--merge", "fuzzy_10"]),
    "bad-merge-argument": dict(argv=["--merge", "percent_abc"]),
    "custom-without-generator": dict(argv=["-f", "custom"]),
    "generator-without-custom": dict(argv=["-f", "pydantic", "--code-generator", "failgen.FailingGenerator"]),
    "unknown-option": dict(argv=["--no-such-option"]),
    "unknown-framework": dict(argv=["-f", "protobuf"]),
    "generator-not-importable": dict(argv=["-f", "custom", "--code-generator", "nosuchmodule.Gen"]),
    "generator-raises": dict(argv=["-f", "custom", "--code-generator", "failgen.FailingGenerator"], envs=[{"J2M_FAIL_FIELD": "1"}, {"J2M_FAIL_FIELD": "3"}, {"J2M_FAIL_FIELD": "5"}]),
    "bad-generator-kwarg": dict(argv=["-f", "attrs", "--code-generator-kwargs", "nosuchkwarg=1"]),
    "bad-regex": dict(argv=["--dkr", "k(\\d+"]),
    "generator-kwarg-without-equals": dict(argv=["-f", "attrs", "--code-generator-kwargs", "meta"]),
    "generator-kwarg-quoted-without-equals": dict(argv=["-f", "dataclasses", "--code-generator-kwargs", '"meta"']),
    "generator-kwarg-empty-name": dict(argv=["-f", "attrs", "--code-generator-kwargs", "=true"]),
    "generator-kwarg-mixed-valid-and-malformed": dict(argv=["-f", "attrs", "--code-generator-kwargs", "meta=true", "no_value"]),
    # file and directory names containing glob meta characters that the CLI documents as literal ('[' ']')
    "missing-file-with-brackets": dict(content=None, name="export[1].json"),
    "malformed-json-with-brackets": dict(content='[{"a": 1}, {"a": ', name="broken[2].json"),
    "missing-file-in-bracket-directory": dict(content=None, name="run[2]/data.json", mkdir="run[2]"),
    "malformed-json-in-bracket-directory": dict(content='{"a": ', name="run[3]/data.json", mkdir="run[3]"),
    "lookup-key-missing-with-brackets": dict(content='{"data": [{"a": 1}]}', lookup="items", name="data[3].json"),
    "missing-file-decoy-matches-as-class": dict(content=None, name="export[1].json", decoy="export1.json"),
    # readable inputs whose *command line* cannot be encoded as UTF-8 (a file name / preamble with an undecodable byte reaches argv as
    # a lone surrogate and from there the header): the run may succeed or fail, but a failing one must leave the target alone
    "undecodable-byte-in-file-name": dict(content=json.dumps(GOOD), name="in\udcff.json", may_succeed=True),
    "undecodable-byte-in-preamble": dict(argv=["--preamble=# caf\udce9"], may_succeed=True),
    "undecodable-byte-in-directory-name": dict(content=json.dumps(GOOD), name="d\udcfe/in.json", mkdir="d\udcfe", may_succeed=True),
}


def make_cases(tier_, seed_):
    cases = []
    for kind, spec in FAULTS.items():
        for pos in (0, 1, 2):
            if "content" not in spec and pos:
                continue  # argument faults have no file position
            for existing in (True, False):
                for env in spec.get("envs", [{}]):
                    cases.append({"kind": kind, "pos": pos, "existing": existing, "env": env, "out": True})
        cases.append({"kind": kind, "pos": 0, "existing": False, "env": spec.get("envs", [{}])[0], "out": False})  # to stdout
        if kind in ("undecodable-byte-in-preamble", "generator-raises", "malformed-json", "missing-file"):
            # the same command line given to a Cli object (parse_args + run) in a process whose own sys.argv does not hold it: the
            # header is then built from another command line than the one that configures the run
            for existing in (True, False):
                cases.append({"kind": kind, "pos": 0, "existing": existing, "env": spec.get("envs", [{}])[0], "out": True, "inproc": True})
    # successful runs: the file must hold the complete text
    for fw in ("base", "pydantic", "attrs", "dataclasses"):
        for existing in (True, False):
            cases.append({"kind": "success", "pos": 0, "existing": existing, "env": {}, "out": True, "fw": fw})
    return cases


def write_inputs(d, case):
    spec = FAULTS.get(case["kind"], {})
    fmt = spec.get("fmt", "json")
    ext = {"json": "json", "yaml": "yaml", "ini": "ini"}[fmt]
    good_text = {"json": json.dumps(GOOD), "yaml": json.dumps(GOOD), "ini": "[s1]\nid = 1\nname = a\n[s2]\nid = 2\nname = b\n"}[fmt]
    argv = []
    names = []
    for j in range(3):
        p = f"in{j}.{ext}"
        faulty = "content" in spec and j == case["pos"]
        if faulty:
            p = spec.get("name", p)
            if spec.get("mkdir"):
                os.makedirs(os.path.join(d, spec["mkdir"]), exist_ok=True)
            if spec.get("decoy"):
                # a readable file that the faulty name would match if its brackets were read as a character class
                with open(os.path.join(d, spec["decoy"]), "w") as f:
                    f.write(good_text)
            if spec["content"] == "<dir>":
                os.makedirs(os.path.join(d, p), exist_ok=True)
            elif spec["content"] is not None:
                with open(os.path.join(d, p), "w") as f:
                    f.write(spec["content"])
            argv += ["-m", "Model"] + ([spec["lookup"]] if spec.get("lookup") else []) + [p]
        else:
            with open(os.path.join(d, p), "w") as f:
                f.write(good_text)
            argv += ["-m", "Model", p]
    if fmt != "json":
        argv += ["-i", fmt]
    argv += spec.get("argv", [])
    if case["kind"] == "success":
        argv += ["-f", case["fw"]]
    with open(os.path.join(d, "failgen.py"), "w") as f:
        f.write(FAILGEN)
    return argv


def run_cli(d, argv, case, extra_env=None, strace=False):
    target = os.path.join(d, "models_out.py")
    if case["out"]:
        argv = argv + ["-o", "models_out.py"]
        if case["existing"]:
            with open(target, "wb") as f:
                f.write(SENTINEL)
    log = os.path.join(d, "trace.jsonl")
    if os.path.exists(log):
        os.remove(log)
    env = child_env(dict(case.get("env") or {}, J2M_VERIF_LOG=log, J2M_VERIF_OUT=target, **(extra_env or {})), with_site=True)
    cmd = [PY, "-m", "json_to_models"] + argv
    if case.get("inproc"):
        cmd = [PY, "-c", INPROC, json.dumps(argv)]
    st_out = None
    if strace:
        st_out = os.path.join(d, "strace.txt")
        cmd = ["strace", "-f", "-qq", "-e", "trace=openat,open,creat,rename,renameat,renameat2,unlink,unlinkat,truncate,ftruncate", "-o", st_out] + cmd
    from ..common import run_bounded
    r = run_bounded(cmd, timeout=300, capture_output=True, cwd=d, env=env)
    trace = []
    if os.path.exists(log):
        with open(log) as f:
            for line in f:
                try:
                    trace.append(json.loads(line))
                except ValueError:
                    pass
    after = None
    if os.path.exists(target):
        with open(target, "rb") as f:
            after = f.read()
    st = None
    if st_out and os.path.exists(st_out):
        with open(st_out, errors="replace") as f:
            st = f.read()
    return r, trace, after, st


INPROC = """
import json, sys
from json_to_models.cli import Cli
argv = json.loads(sys.argv[1])
sys.argv = ["json2models", "-m", "Model", "in0.json"]
cli = Cli()
cli.parse_args(argv)
out = cli.run()
if "-o" not in argv:
    print(out)
"""

CODE_RE = re.compile(rb"^\s*class \w+", re.M)


def judge_failure(case, argv, r, trace, after, st, label):
    wit = []

    def W(mech, msg):
        wit.append({"property": PROP, "mechanism": mech, "msg": f"[{label}] argv {argv}: {msg}"[:700]})

    if r.returncode == 0 and FAULTS.get(case["kind"], {}).get("may_succeed"):
        # not a fault for the pipeline itself: a run that reports success must have produced its text
        text = after if case["out"] else r.stdout
        if text is None or not CODE_RE.search(text) or (case["out"] and text == SENTINEL):
            W(f"successful-run-without-output:{case['kind']}", f"exit status 0 but the output holds no model code: {None if text is None else text[:80]!r}")
        return wit
    if r.returncode == 0:
        W(f"faulty-run-exits-zero:{case['kind']}", f"exit status 0; stdout {r.stdout[:150]!r}")
    if b"generated by json2python-models" in r.stdout or CODE_RE.search(r.stdout):
        W(f"model-code-printed-on-failure:{case['kind']}", f"stdout contains model code: {r.stdout[:200]!r}")
    if case["out"]:
        if case["existing"] and after != SENTINEL:
            W(f"existing-output-changed:{case['kind']}", f"pre-existing -o file changed: now {None if after is None else after[:80]!r}")
        if not case["existing"] and after is not None and r.returncode != 0:
            W(f"output-created-by-failing-run:{case['kind']}", f"-o file created by a failing run ({len(after)} bytes)")
    for ev in trace:
        if ev.get("ev") in ("open_w", "os.rename", "os.replace", "os.remove", "os.truncate") and r.returncode != 0:
            W(f"target-touched-by-failing-run:{case['kind']}", f"audit hook saw {ev['ev']} on the -o target after {ev.get('py_starts_before')} pipeline calls")
    if st is not None and r.returncode != 0:
        for line in st.split("\n"):
            if "models_out.py" in line and ("O_WRONLY" in line or "O_RDWR" in line or "O_TRUNC" in line or "O_CREAT" in line
                                            or line.split("(")[0].split()[-1] in ("rename", "renameat", "renameat2", "unlink", "unlinkat", "truncate")):
                W(f"target-touched-by-failing-run:{case['kind']}", f"strace: {line[:200]}")
                break
    return wit


def main():
    t = tier()
    cases = make_cases(t, seed())
    v = Verdict(PROP, "fault_enumeration",
                f"{len(FAULTS)} fault kinds (missing/empty/malformed JSON/YAML/INI file, lookup faults incl. lookups landing on falsy scalars, non-object sample shapes incl. falsy roots, "
                "non-string YAML keys, bad merge policy/argument, framework/generator mismatches, unknown option/framework, generator not "
                "importable, generator raising at field 1/3/5, bad generator kwarg, bad regex) x position of the faulty file among two good "
                "ones (first/middle/last) x -o target pre-existing with sentinel bytes / absent / output to stdout; plus source-free "
                "failpoints (sys.monitoring PY_START inside json_to_models, injected through a PYTHONPATH sitecustomize) swept over the "
                f"pipeline's function starts ({'every index' if t == 'thorough' else 'seeded sample of 80'}) for several inputs; plus "
                "successful runs whose file must equal the printed text. Monitors: exit status, stdout, target bytes, audit-hook trace of "
                f"write-opens relative to pipeline calls{', strace on every failing run' if t == 'thorough' else ', strace on a subset'}. "
                "non-trivial = failing run with a pre-existing target, or a failpoint run",
                ["'prints no model code' = stdout contains neither the header marker nor a line matching ^\\s*class \\w+",
                 "a temp-file-then-rename writer is accepted: the rule is about the target path on failing runs"])
    tmp = tempfile.mkdtemp(prefix="j2mverif_c17_")
    try:
        def do(ic):
            i, case = ic
            d = os.path.join(tmp, f"c{i}")
            os.makedirs(d)
            argv = write_inputs(d, case)
            use_strace = t == "thorough" or i % 9 == 0
            r, trace, after, st = run_cli(d, argv, case, strace=use_strace)
            return case, argv, r, trace, after, st

        with ThreadPoolExecutor(max_workers=NPROC) as ex:
            done = list(ex.map(do, enumerate(cases)))
        success_text = {}
        for case, argv, r, trace, after, st in done:
            cnt = {"cli_runs": 1, "strace_runs": int(st is not None), "fault_" + case["kind"]: 1,
                   "audit_traces": int(bool(trace)), "with_existing_target": int(case["out"] and case["existing"])}
            if getattr(r, "timed_out", False):
                v.add({"argv": argv, "kind": case["kind"]}, {"status": "inconclusive", "why": "case timeout", "witnesses": [], "counters": cnt})
                continue
            if case["kind"] == "success":
                wit = []
                if r.returncode != 0:
                    wit.append({"property": PROP, "mechanism": "success-run-fails", "msg": f"argv {argv}: exit {r.returncode} {r.stderr[-200:]!r}"})
                else:
                    # the same command without -o prints the text the file must hold (timestamp masked)
                    d2 = tempfile.mkdtemp(prefix="ok", dir=tmp)
                    argv2 = write_inputs(d2, case)
                    r2 = subprocess.run([PY, "-m", "json_to_models"] + argv2, capture_output=True, cwd=d2, env=child_env(), timeout=300)
                    def body_of(b):
                        # the text after the header statement (the header carries a timestamp and the command line)
                        from .c16 import split_header
                        try:
                            return split_header(b.decode("utf-8"))[1]
                        except Exception:
                            return None
                    if after is None or body_of(after) is None or body_of(r2.stdout) not in (body_of(after) + "\n", body_of(after)):
                        wit.append({"property": PROP, "mechanism": "output-file-incomplete",
                                    "msg": f"argv {argv}: -o file ({None if after is None else len(after)} bytes) differs from the printed text ({len(r2.stdout)} bytes)"})
                    opens = [e for e in trace if e.get("ev") in ("open_w", "os.rename", "os.replace")]  # direct write or temp-file-then-rename
                    ex_ = [e for e in trace if e.get("ev") == "exit"]
                    cnt["write_opens_observed"] = len(opens)
                    if opens and ex_ and ex_[-1].get("after_open", 0) > 0:
                        wit.append({"property": PROP, "mechanism": "generation-continues-after-output-opened",
                                    "msg": f"argv {argv}: {ex_[-1]['after_open']} pipeline calls ran after the -o target was opened for writing "
                                           f"(opened after {opens[0]['py_starts_before']} of {ex_[-1]['py_starts']})"})
                    if ex_:
                        cnt["pipeline_calls_counted"] = ex_[-1].get("py_starts", 0)
                v.add({"argv": argv, "case": case}, {"status": "violated" if wit else "held", "witnesses": wit, "counters": cnt, "nontrivial": True,
                                                    "digest": digest([argv, case])}, sample_view={"argv": argv, "kind": "success"})
                continue
            wit = judge_failure(case, argv, r, trace, after, st, case["kind"])
            v.add({"argv": argv, "case": case}, {"status": "violated" if wit else "held", "witnesses": wit, "counters": cnt,
                                                "nontrivial": bool(case["out"] and case["existing"]), "digest": digest([argv, case])},
                  sample_view={"argv": argv, "kind": case["kind"], "pos": case["pos"], "existing": case["existing"], "exit": r.returncode,
                               "stderr_tail": r.stderr.decode("utf-8", "replace").strip().split("\n")[-1][:160]})
        # ---- failpoint sweep
        inputs = [GOOD, [{"a": {"b": {"c": [1, "x"]}}, "d": "2018-01-02"}, {"a": None}]]
        if t == "thorough":
            inputs += [[{"k": [{"x": 1}, {"x": "1"}], "name": "n"}], [{"u": 1}], [{"p": {"q": 1}, "r": {"q": 2}}]]
        fp_jobs = []
        for ii, samples in enumerate(inputs):
            for fw, extra in (("pydantic", []), ("dataclasses", ["--strings-converters", "-s", "nested"])):
                d = os.path.join(tmp, f"fp{ii}{fw}")
                os.makedirs(d)
                with open(os.path.join(d, "in.json"), "w") as f:
                    json.dump(samples, f)
                argv = ["-m", "Model", "in.json", "-f", fw] + extra
                case = {"kind": "failpoint", "out": True, "existing": True, "env": {}}
                r, trace, after, _ = run_cli(d, argv, case)
                total = next((e["py_starts"] for e in trace if e.get("ev") == "exit"), 0)
                v.counters["failpoint_baseline_calls"] += total
                if r.returncode != 0 or not total:
                    v.add({"argv": argv}, {"status": "inconclusive", "why": "failpoint baseline run failed", "witnesses": []})
                    continue
                ks = range(1, total + 1)
                if t != "thorough":
                    rng = rng_for(PROP, "fp", seed(), ii, fw)
                    ks = sorted(rng.sample(range(1, total + 1), min(total, 20)))
                for k in ks:
                    fp_jobs.append((d, argv, case, k, ii, fw))

        def do_fp(job):
            d, argv, case, k, ii, fw = job
            d2 = tempfile.mkdtemp(prefix=f"fp{ii}{fw}_{k}_", dir=tmp)
            shutil.copy(os.path.join(d, "in.json"), os.path.join(d2, "in.json"))
            r, trace, after, st = run_cli(d2, argv, case, extra_env={"J2M_VERIF_FAIL_AT": str(k)}, strace=(t == "thorough" and k % 10 == 0))
            shutil.rmtree(d2, ignore_errors=True)
            return job, r, trace, after, st

        with ThreadPoolExecutor(max_workers=NPROC) as ex:
            for (d, argv, case, k, ii, fw), r, trace, after, st in ex.map(do_fp, fp_jobs):
                fired = [e for e in trace if e.get("ev") == "failpoint"]
                cnt = {"cli_runs": 1, "failpoint_runs": 1, "failpoints_fired": int(bool(fired)), "with_existing_target": 1}
                if not fired:
                    v.add({"argv": argv, "k": k}, {"status": "inconclusive", "why": "failpoint did not fire", "witnesses": [], "counters": cnt})
                    continue
                c2 = dict(case, kind="failpoint")
                wit = judge_failure(c2, argv, r, trace, after, st, f"failpoint #{k} at {fired[0].get('where')}")
                v.add({"argv": argv, "k": k, "where": fired[0].get("where")},
                      {"status": "violated" if wit else "held", "witnesses": wit, "counters": cnt, "nontrivial": True, "digest": digest([argv, k])},
                      sample_view={"argv": argv, "failpoint": k, "where": fired[0].get("where"), "exit": r.returncode})
    finally:
        shutil.rmtree(tmp, ignore_errors=True)
    v.extra["fault_kinds"] = sorted(FAULTS)
    v.extra["fault_kinds_enumerated_completely"] = True
    v.extra["failpoints_exhaustive"] = t == "thorough"
    return v.finish(floor_nontrivial=40, monitors_required=("cli_runs", "failpoints_fired", "strace_runs", "audit_traces", "write_opens_observed",
                                                            "pipeline_calls_counted", "with_existing_target"))
