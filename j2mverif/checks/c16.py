"""C16 - the command line is a faithful front end to the library pipeline.
Real CLI subprocesses; stdout after the header / the -o file are compared with what an independent reference front end
(own argument mapping, own file loading, explicit registries) obtains from the library."""
import ast
import configparser
import itertools
import json
import os
import re
import shutil
import subprocess
import tempfile
from concurrent.futures import ThreadPoolExecutor

from .. import gen
from ..common import NPROC, PY, Verdict, child_env, digest, rng_for, seed, tier

PROP = "C16"
N = {"quick": 400, "thorough": 8000}
ACTUAL = {"IntString": "int", "FloatString": "float", "BooleanString": "bool", "IsoDateString": "date", "IsoTimeString": "time",
          "IsoDatetimeString": "datetime"}


PAT_EXAMPLES = {r"k\d+": ["k1", "k22"], r"[a-z]+": ["abc", "zed"], r"k1\d*|k2\d*": ["k1", "k25"], r"sec\d": ["sec1", "sec2"],
                r"node_\d+": ["node_1", "node_2"], r"\d+_\d+": ["2020_01", "7_7"]}


def yaml_dump(obj, path):
    import ruamel.yaml as yaml
    y = yaml.YAML(typ="safe", pure=True)
    with open(path, "w") as f:
        y.dump(obj, f)


def yaml_load(path):
    import ruamel.yaml as yaml
    with open(path) as f:
        return yaml.YAML(typ="safe", pure=True).load(f)


def yaml_safe(v):
    """values that survive a YAML round trip as JSON values (no date-like or special strings)"""
    if isinstance(v, dict):
        return {k: yaml_safe(x) for k, x in v.items()}
    if isinstance(v, list):
        return [yaml_safe(x) for x in v]
    if isinstance(v, float) and (v != v or v in (float("inf"), float("-inf")) or abs(v) > 1e300):
        return 1.5
    if isinstance(v, int) and not isinstance(v, bool) and abs(v) > 2 ** 62:
        return 7
    return v


def gen_case(rng, i):
    fmt = rng.choice(["json", "json", "json", "yaml", "ini"])
    names = ["Root"] if rng.random() < 0.75 else ["Root", "Second"]
    force_merge = None
    files = []  # (relative path, document)
    args = []   # argv pieces in order: ("-m"|"-l", name, lookup|None, path_or_pattern)
    expect = {n: [] for n in names}
    fcount = 0
    for name in names:
        if fmt == "ini":
            sample = {f"sec{j}": {f"k{x}": rng.choice(["1", "abc", "2.5", "true", "x y", "Abc", "TRUE", "Hello World", "MiXed"]) for x in range(rng.randint(1, 3))} for j in range(rng.randint(1, 3))}
            p = f"{name.lower()}{fcount}.ini"
            fcount += 1
            files.append((p, sample))
            args.append(["-m", name, None, p])
            expect[name].append(("file", p, [sample]))
            continue
        samples = gen.json_case(rng, profile=rng.choice(["small", "general", "merge", "strings"]))["samples"]
        if rng.random() < 0.25:
            # id-keyed objects: one family per object, and one object mixing two families (no single pattern covers it)
            samples[0] = dict(samples[0], by_node={"node_1": 1.5, "node_2": 2.5}, by_day={"2020_01": 1, "2020_02": 2},
                              mixed={"node_1": 1.5, "2020_01": 2.5, "k7": 3.5})
        if rng.random() < 0.2:
            # --merge percent_N with two objects whose key overlap is exactly N/100 (and just below)
            N = rng.choice([35, 41, 47, 57, 69, 70, 82, 83, 94, 95, 50, 75, 80, 90])
            den = rng.choice([d for d in (20, 100, 10, 50) if (N * d) % 100 == 0] or [100])
            shared = N * den // 100
            rest = den - shared
            common = {f"c{j}": j for j in range(shared)}
            samples[0] = dict(samples[0], pct_a={**common, **{f"a{j}": 1 for j in range(rest // 2)}},
                              pct_b={**common, **{f"b{j}": 1 for j in range(rest - rest // 2)}})
            force_merge = [f"percent_{N}"] if rng.random() < 0.7 else ["percent_99", f"percent_{N}"]
        if rng.random() < 0.2:
            # two wide objects sharing 10 keys but < 70 % of them: merged only by the default number_10 policy
            common = {f"c{j}": j for j in range(10)}
            samples[0] = dict(samples[0], wide_a={**common, **{f"a{j}": "s" for j in range(rng.randint(5, 8))}},
                              wide_b={**common, **{f"b{j}": 1.5 for j in range(rng.randint(5, 8))}})
        if fmt == "yaml":
            samples = [yaml_safe(s) for s in samples]
        # split the sample list over 1-4 files
        nfiles = rng.randint(1, min(4, len(samples)))
        cuts = sorted(rng.sample(range(1, len(samples)), nfiles - 1)) if nfiles > 1 else []
        parts = [samples[a:b] for a, b in zip([0] + cuts, cuts + [len(samples)])]
        use_glob = nfiles >= 2 and rng.random() < 0.3
        # directory names with '[' ']' are literal in the part of a path before the pattern; '*' also matches dot-files
        sub = (f"g{name.lower()}" + rng.choice(["", "", "[2024]", " [a-b]"])) if use_glob else ""
        glob_members = []
        for part in parts:
            ext = "yaml" if fmt == "yaml" else "json"
            p = os.path.join(sub, f"{name.lower()}{fcount}.{ext}")
            if use_glob and rng.random() < 0.25:
                p = os.path.join(sub, f".{name.lower()}{fcount}.{ext}")
            elif not use_glob and rng.random() < 0.15:
                p = f"{name.lower()}[{fcount}].{ext}"  # a literally named file (no '*' or '?': not a pattern)
            fcount += 1
            r = rng.random()
            lookup = None
            if len(part) == 1 and r < 0.3:
                doc = part[0]  # a single object contributes itself
            elif r < 0.6 and not use_glob:
                lookup = rng.choice(["data", "a.b", "result.items.list"])
                doc = part
                for key in reversed(lookup.split(".")):
                    doc = {key: doc, "other": 1}
                if "." in lookup and rng.random() < 0.4:
                    # sibling keys spelled like the (rest of the) dotted lookup: a lookup walks the path, it is not a key
                    doc[lookup] = [{"decoy_full": 1}]
                    head, rest = lookup.split(".", 1)
                    if "." in rest:
                        doc[head][rest] = [{"decoy_rest": "s"}]
                if len(part) == 1 and rng.random() < 0.5:
                    # lookup selecting an object
                    doc = part[0]
                    for key in reversed(lookup.split(".")):
                        doc = {key: doc}
            else:
                doc = part
            files.append((p, doc))
            if use_glob:
                glob_members.append((p, part))
            else:
                flag = "-l" if (lookup is not None and rng.random() < 0.25) else "-m"
                if flag == "-l":
                    args.append(["-l", name, lookup, p])
                else:
                    args.append(["-m", name, lookup if lookup is not None else (("-" if rng.random() < 0.3 else None)), p])
                expect[name].append(("file", p, part))
        if not use_glob and len(samples) >= 3 and rng.random() < 0.25:
            # the same file used twice for this model (two lookups), with another file's argument in between
            ext = "yaml" if fmt == "yaml" else "json"
            p2 = f"{name.lower()}_twice{fcount}.{ext}"
            fcount += 1
            extra_a = [dict(samples[0], reused_first=1)]
            extra_b = [dict(samples[-1], reused_second="s")]
            files.append((p2, {"a": extra_a, "b": {"c": extra_b}}))
            pos = rng.randrange(len(args) + 1) if False else len([a for a in args if a[1] == name])
            mine = [a for a in args if a[1] == name]
            insert_at = args.index(mine[0]) if mine else len(args)
            args.insert(insert_at, ["-m", name, "a", p2])
            args.append(["-m", name, "b.c", p2])
            expect[name].insert(0, ("file:a", p2, extra_a))
            expect[name].append(("file:b.c", p2, extra_b))
        if use_glob:
            ext = "yaml" if fmt == "yaml" else "json"
            args.append(["-m", name, None, os.path.join(sub, f"*.{ext}")])
            expect[name].append(("glob", [m[0] for m in glob_members], [m[1] for m in glob_members]))
    # -l arguments are collected after all -m arguments by the CLI: keep them last on the command line too
    args.sort(key=lambda a: a[0] == "-l")
    names = sorted(names, key=lambda n: min(j for j, a in enumerate(args) if a[1] == n))  # dict insertion order in the CLI
    for name in names:
        def pos_of(e):
            if e[0] == "glob":
                return min((j for j, a in enumerate(args) if a[1] == name and "*" in a[3]), default=0)
            lk = e[0].split(":", 1)[1] if ":" in e[0] else None
            for j, a in enumerate(args):
                if a[1] == name and a[3] == e[1] and (lk is None or a[2] == lk):
                    return j
            return 0
        expect[name].sort(key=pos_of)
    o = {"framework": rng.choice(["base", "pydantic", "attrs", "dataclasses", "sqlmodel"]), "structure": rng.choice(["flat", "nested", None]),
         "datetime": rng.random() < 0.35, "strings_converters": rng.random() < 0.35, "max_literals": rng.choice([None, 0, 1, 5, 16]),
         "no_unidecode": rng.random() < 0.2, "merge": rng.choice([None, ["exact"], ["percent_50"], ["number_2"], ["percent_80", "number_3"], ["percent"], ["number"],
                               # the same kind of policy twice with different thresholds (any one accepting is enough)
                               ["percent_90", "percent_50"], ["number_12", "exact", "number_3"], ["percent_95", "number_11", "percent_40"]]),
         "disable": rng.choice([None, None, ["int"], ["float", "bool"], ["IntString"], ["date"], ["datetime", "time"], ["IsoDateString"]]),
         "meta": rng.choice([None, None, "true", "false"]), "preamble": rng.choice([None, None, "# preamble comment", "X = 1\nY = 2"]),
         "output_file": rng.random() < 0.3, "dkf": None, "dkr": None}
    if force_merge:
        o["merge"] = force_merge
    allkeys = sorted({k for _p, d in files for k in gen.collect_keys([d] if isinstance(d, dict) else d if isinstance(d, list) else [])})
    if rng.random() < 0.25 and allkeys:
        o["dkf"] = rng.sample(allkeys, min(len(allkeys), 2))
    if rng.random() < 0.3:
        o["dkr"] = rng.sample(list(PAT_EXAMPLES), rng.choice([1, 2, 2, 3]))
        if len(o["dkr"]) >= 2 and fmt == "json":
            # an object whose keys are covered by the union of the patterns but by no single one (must stay a model),
            # next to objects covered by one pattern each (mappings)
            a, b = o["dkr"][:2]
            keys = [rng.choice(PAT_EXAMPLES[a]), rng.choice(PAT_EXAMPLES[b])]
            if not any(all(re.fullmatch(p, k) for k in keys) for p in o["dkr"]):
                for pth, doc in files:
                    tgt = doc if isinstance(doc, dict) else (doc[0] if isinstance(doc, list) and doc and isinstance(doc[0], dict) else None)
                    if tgt is not None and not any(k in tgt for k in ("data", "a", "result")):
                        tgt["union_only"] = {keys[0]: 1.5, keys[1]: 2.5}
                        tgt["single_a"] = {k: 1 for k in PAT_EXAMPLES[a]}
                        break
    return {"i": i, "fmt": fmt, "files": files, "args": args, "expect": expect, "o": o, "names": names}


def build_argv(case, outpath=None):
    o = case["o"]
    argv = []
    for flag, name, lookup, path in case["args"]:
        argv += [flag, name] + ([lookup] if lookup is not None else []) + [path]
    if case["fmt"] != "json":
        argv += ["-i", case["fmt"]]
    argv += ["-f", o["framework"]]
    if o["structure"]:
        argv += ["-s", o["structure"]]
    if o["datetime"]:
        argv += ["--datetime"]
    if o["strings_converters"]:
        argv += ["--strings-converters"]
    if o["max_literals"] is not None:
        argv += ["--max-strings-literals", str(o["max_literals"])]
    if o["no_unidecode"]:
        argv += ["--disable-unicode-conversion"]
    if o["merge"]:
        argv += ["--merge"] + o["merge"]
    if o["dkr"]:
        argv += ["--dkr"] + o["dkr"]
    if o["dkf"]:
        argv += ["--dkf"] + o["dkf"]
    if o["disable"]:
        argv += ["--disable-str-serializable-types"] + o["disable"]
    if o["meta"] and o["framework"] in ("attrs", "dataclasses"):
        argv += ["--code-generator-kwargs", f"meta={o['meta']}"]
    if o["preamble"]:
        argv += [f"--preamble={o['preamble']}"]
    if outpath:
        argv += ["-o", outpath]
    return argv


# ---------------------------------------------------------------------------------------------------------
# reference front end (independent of cli.py)

def ref_load(path, fmt):
    if fmt == "json":
        with open(path) as f:
            return json.load(f)
    if fmt == "yaml":
        return yaml_load(path)
    cp = configparser.ConfigParser()
    cp.read(path)
    return {s: dict(cp.items(s)) for s in cp.sections()}


def ref_samples(doc, lookup):
    if lookup not in (None, "-"):
        for key in lookup.split("."):
            doc = doc[key]
    if isinstance(doc, list):
        return list(doc)
    if isinstance(doc, dict):
        return [doc]
    raise TypeError("lookup does not select an object or list")


def ref_opts(o):
    reg = ["IntString", "FloatString", "BooleanString"] + (["IsoDateString", "IsoTimeString", "IsoDatetimeString"] if o["datetime"] else [])
    for name in o["disable"] or []:
        reg = [r for r in reg if r != name and ACTUAL[r] != name]
    merge = []
    for m in o["merge"] or ["percent", "number"]:
        kind, _, arg = m.partition("_")
        if kind == "percent":
            merge.append(["percent", float(arg) / 100] if arg else ["percent", 0.7])
        elif kind == "number":
            merge.append(["number", int(arg)] if arg else ["number", 10])
        else:
            merge.append(["exact"])
    return {"framework": o["framework"], "flat": o["structure"] != "nested", "merge": merge,
            "max_literals": 10 if o["max_literals"] is None else o["max_literals"], "convert_unicode": not o["no_unidecode"],
            "registry": reg, "dkf": o["dkf"] or [], "dkr": o["dkr"] or [], "post_init_converters": bool(o["strings_converters"]),
            "meta": o["meta"] == "true"}


def ref_texts(case, d):
    """all library texts the CLI may legitimately print (several only when a glob pattern is involved)"""
    from .. import driver
    opts = ref_opts(case["o"])
    per_name_variants = []
    for name in case["names"]:
        chunks = [[]]
        for entry in case["expect"][name]:
            if entry[0] == "file":
                chunks = [c + list(entry[2]) for c in chunks]
            else:
                parts = entry[2]
                perms = list(itertools.permutations(range(len(parts))))[:24]
                chunks = [c + [s for j in p for s in parts[j]] for c in chunks for p in perms]
        per_name_variants.append(chunks)
    texts = []
    seen = set()
    for combo in itertools.islice(itertools.product(*per_name_variants), 600):
        models = [(n, s) for n, s in zip(case["names"], combo)]
        key = json.dumps(models, sort_keys=True, default=str)
        if key in seen:
            continue
        seen.add(key)
        run = driver.infer(models, opts)
        texts.append(driver.render(run, opts, preamble=(case["o"]["preamble"] or "").strip() or None))
    return texts


def split_header(stdout):
    tree = ast.parse(stdout)
    first = tree.body[0]
    if not (isinstance(first, ast.Expr) and isinstance(first.value, ast.Constant) and isinstance(first.value.value, str)):
        raise ValueError("first statement is not the header string")
    lines = stdout.split("\n")
    return "\n".join(lines[:first.end_lineno]) + "\n", "\n".join(lines[first.end_lineno:])


def run_one(case, tmp):
    d = os.path.join(tmp, str(case["i"]))
    os.makedirs(d)
    for p, doc in case["files"]:
        full = os.path.join(d, p)
        os.makedirs(os.path.dirname(full), exist_ok=True)
        if case["fmt"] == "json":
            with open(full, "w") as f:
                json.dump(doc, f)
        elif case["fmt"] == "yaml":
            yaml_dump(doc, full)
        else:
            cp = configparser.ConfigParser()
            cp.read_dict(doc)
            with open(full, "w") as f:
                cp.write(f)
    # the reference loads the files itself (so loader-specific value conversions are shared, not the CLI's assembly)
    for name in case["names"]:
        new = []
        for entry in case["expect"][name]:
            if entry[0].startswith("file"):
                if ":" in entry[0]:
                    lookup = entry[0].split(":", 1)[1]
                else:
                    lookup = next((a[2] for a in case["args"] if a[3] == entry[1]), None)
                new.append(("file", entry[1], ref_samples(ref_load(os.path.join(d, entry[1]), case["fmt"]), lookup)))
            else:
                new.append(("glob", entry[1], [ref_samples(ref_load(os.path.join(d, p), case["fmt"]), None) for p in entry[1]]))
        case["expect"][name] = new
    out = os.path.join(d, "out_models.py") if case["o"]["output_file"] else None
    argv = build_argv(case, "out_models.py" if out else None)
    from ..common import run_bounded
    r = run_bounded([PY, "-m", "json_to_models"] + argv, timeout=120, capture_output=True, text=True, cwd=d, env=child_env())
    content = None
    if out and os.path.exists(out):
        with open(out, encoding="utf-8") as f:
            content = f.read()
    return d, argv, r, content


def judge(case, d, argv, r, content):
    wit = []

    def W(mech, msg):
        wit.append({"property": PROP, "mechanism": mech, "msg": msg[:700]})

    if getattr(r, "timed_out", False):
        return None, {"reference_failed": "the CLI run did not finish within 120 s (case timeout)"}
    if r.returncode != 0:
        W(f"cli-fails-on-valid-input:{(r.stderr.strip().splitlines() or ['?'])[-1].split(':')[0]}", f"argv {argv}: exit {r.returncode}: {r.stderr[-300:]}")
        return wit, {}
    import signal

    class _RefTimeout(BaseException):
        pass

    def _alarm(signum, frame):
        raise _RefTimeout()
    old_handler = signal.signal(signal.SIGALRM, _alarm)
    signal.setitimer(signal.ITIMER_REAL, 90)
    try:
        texts = ref_texts(case, d)
    except _RefTimeout:
        return None, {"reference_failed": "the library reference did not finish within 90 s (case timeout)"}
    except Exception as e:
        return None, {"reference_failed": f"{type(e).__name__}: {e}"}
    finally:
        signal.setitimer(signal.ITIMER_REAL, 0)
        signal.signal(signal.SIGALRM, old_handler)
    cnt = {"cli_runs": 1, "reference_variants": len(texts), "files": len(case["files"]), "fmt_" + case["fmt"]: 1,
           "with_lookup": int(any(a[2] not in (None, "-") for a in case["args"])), "with_glob": int(any("*" in a[3] for a in case["args"])),
           "with_output_file": int(bool(case["o"]["output_file"])), "legacy_l": int(any(a[0] == "-l" for a in case["args"]))}
    if case["o"]["output_file"]:
        if content is None:
            W("output-file-missing", f"argv {argv}: -o file not written")
            return wit, cnt
        if "Output is written to" not in r.stdout or "class " in r.stdout:
            W("stdout-with-output-file", f"stdout is {r.stdout[:200]!r}")
        printed = content
        nl = ""
    else:
        printed = r.stdout
        nl = "\n"  # print() adds one
    try:
        header, body = split_header(printed)
    except Exception as e:
        W("header-not-first-statement", f"argv {argv}: {type(e).__name__}: {e}")
        return wit, cnt
    # the file may or may not end with the newline that print() appends to the printed text
    if not any(body == t + nl or (case["o"]["output_file"] and body == t + "\n") for t in texts):
        import difflib
        t = min(texts, key=lambda x: sum(1 for _ in difflib.unified_diff(x.split("\n"), body.split("\n"), lineterm="")))
        diff = "\n".join(list(difflib.unified_diff((t + nl).split("\n"), body.split("\n"), "library", "cli", lineterm="", n=0))[:14])
        W("cli-text-differs-from-library:" + classify(case, t + nl, body), f"argv {argv}: {diff}")
    return wit, cnt


def classify(case, lib, cli):
    """which option family the difference points at (for a stable mechanism name)"""
    o = case["o"]
    if ("convert_strings" in lib) != ("convert_strings" in cli):
        return "strings-converters"
    for t in ("date", "time", "datetime"):
        pat = re.compile(rf"\b(?:Iso{t.capitalize()}String|{t})\b")
        if bool(pat.search(lib)) != bool(pat.search(cli)):
            return "pseudo-type-set"
    if sorted(lib.split("\n")) == sorted(cli.split("\n")):
        return "order"
    return "content"


def main():
    cases = [gen_case(rng_for(PROP, seed(), i), i) for i in range(N[tier()])]
    v = Verdict(PROP, "exploration",
                "real CLI subprocesses: sample lists split over 1-4 files per model name (list file, single-object file, wrapped under a "
                "dotted lookup, lookup selecting an object, '-' lookup), several -m per name, legacy -l, glob patterns (any permutation of "
                "the matched files accepted), 1-2 model names, json / yaml / ini x framework, structure, --datetime, --strings-converters, "
                "--max-strings-literals, --disable-unicode-conversion, --merge, --dkr, --dkf, --disable-str-serializable-types, "
                "--code-generator-kwargs meta=, --preamble, -o. Oracle: stdout after the header (located by ast) / the -o file == text "
                "returned by the library for the samples and options assembled by an independent reference front end. non-trivial = >=2 "
                "files or a lookup or >=3 options",
                ["-l arguments are placed after the -m arguments on the command line (the CLI collects them in that order)",
                 "yaml inputs avoid values that YAML itself converts (dates, huge numbers)"])
    tmp = tempfile.mkdtemp(prefix="j2mverif_c16_")
    try:
        with ThreadPoolExecutor(max_workers=NPROC) as ex:
            done = list(ex.map(lambda c: (c, run_one(c, tmp)), cases))
        for c, (d, argv, r, content) in done:
            wit, cnt = judge(c, d, argv, r, content)
            nopts = sum(1 for k, x in c["o"].items() if x not in (None, False))
            view = {"argv": argv, "files": [p for p, _ in c["files"]]}
            if wit is None:
                v.add(view, {"status": "inconclusive", "why": "reference front end failed: " + cnt.get("reference_failed", ""), "witnesses": []})
                continue
            v.add({"argv": argv, "files": c["files"]}, {"status": "violated" if wit else "held", "witnesses": wit, "counters": cnt, "digest": digest(argv + [c["files"]]),
                                                         "nontrivial": len(c["files"]) >= 2 or cnt.get("with_lookup") or nopts >= 3}, sample_view=view)
    finally:
        shutil.rmtree(tmp, ignore_errors=True)
    return v.finish(floor_nontrivial=50, monitors_required=("cli_runs", "with_lookup", "with_glob", "with_output_file", "legacy_l", "fmt_yaml", "fmt_ini"))
