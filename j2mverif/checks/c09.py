"""C09 - string pseudo-types are detected soundly and convert losslessly.
Monitors: first-match oracle on MetadataGenerator.generate results, resolve-soundness oracle over the accepted-string corpus,
disabled-type monitor, parse/render/parse monitor."""
import itertools
import math

from ..common import Verdict, digest, rng_for, run_shards, seed, tier

PROP = "C09"
NAMES = ["IntString", "FloatString", "BooleanString", "IsoDateString", "IsoTimeString", "IsoDatetimeString"]
ACTUAL = {"IntString": "int", "FloatString": "float", "BooleanString": "bool", "IsoDateString": "date", "IsoTimeString": "time",
          "IsoDatetimeString": "datetime"}

DIG = ["0", "1", "7", "12", "007", "1234567890", "٣", "１２", "9" * 25, "1" + "0" * 400, "9" * 310]
SIGN = ["", "+", "-", "--", "+-"]
WS = ["", " ", "\t", "\n", " ", " "]
FRAGS_NUM = ["{s}{d}", "{s}{d}.{d}", "{s}.{d}", "{s}{d}.", "{s}{d}e{d}", "{s}{d}E-{d}", "{s}{d}e", "{s}{d}_{d}", "{s}{d}__{d}", "_{d}", "{d}_",
             "{s}{d},{d}", "1e999", "-1e999", "1e309", "0x{d}", "0b101", "0o17", "{s}{d}j", "{s}{d}%", "{s}{d}/{d}", "1e400", "1e-400", "½", "²", "٣.٥"]
WORDS = ["nan", "NaN", "NAN", "inf", "Inf", "INF", "infinity", "Infinity", "-inf", "+nan", "-Infinity", "in f", "nano", "infinit",
         "true", "false", "True", "False", "TRUE", "FALSE", "tRuE", "fAlse", "yes", "no", "on", "off", "t", "f", "1", "0", "null", "None",
         "truee", " true", "true ", "ｔｒｕｅ", "ſalse"]
DATES = ["2018-01-02", "20180102", "2018-01", "2018", "2018-W01-1", "2018W011", "2018-W01", "2018-002", "2018002", "1999-12-31", "2020-02-29",
         "2019-02-29", "2018-13-01", "2018-00-10", "2018-1-2", "18-01-02", "0001-01-01", "9999-12-31", "0000-01-01", "10000-01-01",
         "2018/01/02", "01/02/2018", "Jan 2 2018", "2 January 2018", "may", "monday", "today", "2018-01-02 ", " 2018-01-02", "２０１８-01-02"]
TIMES = ["10:30", "10:30:00", "10:30:00.123", "10:30:00.123456", "10:30:00,5", "103000", "1030", "10", "24:00", "24:00:00", "23:59:60", "25:00",
         "10:60", "7:05", "07:05:9", "10:30Z", "10:30:00+03:00", "10:30:00-0300", "10:30:00+03", "10:30 pm", "10am", "noon", "10:30:00.1234567",
         "١٢:٣٠", "12:30:00 UTC", "T10:30", "10:30:", ":30", "99999999999999999999:00", "10:30888888888888888888888888800"]
SEPS = ["T", " ", "t", "_", "  ", ""]
ZONES = ["", "Z", "+03:00", "-0530", "+14:00", "+24:00", "z", " UTC", "+0300"]


def grammar_strings(rng, n):
    out = []
    for _ in range(n):
        r = rng.random()
        if r < 0.22:
            s = rng.choice(FRAGS_NUM).format(s=rng.choice(SIGN), d=rng.choice(DIG))
            s = s.replace("{d}", rng.choice(DIG))
        elif r < 0.36:
            s = rng.choice(WORDS)
        elif r < 0.52:
            s = rng.choice(DATES)
        elif r < 0.68:
            s = rng.choice(TIMES)
        elif r < 0.88:
            s = rng.choice(DATES[:16]) + rng.choice(SEPS) + rng.choice(TIMES[:18]) + rng.choice(ZONES)
        else:
            s = "".join(rng.choice("0123456789-:T.Z+ eE_naif") for _ in range(rng.randint(1, 12)))
        if rng.random() < 0.15:
            s = rng.choice(WS) + s + rng.choice(WS)
        if rng.random() < 0.1 and s:
            i = rng.randrange(len(s))
            s = s[:i] + rng.choice("0123456789-:. TZ+e_x") + s[i + rng.choice([0, 1]):]
        out.append(s)
    return out


def gen_cases_for(tier_, seed_):
    rng = rng_for(PROP, seed_)
    nstr = 3000 if tier_ == "quick" else 12000
    strings = sorted(set(grammar_strings(rng, nstr) + WORDS + DATES + TIMES))
    orders = [list(p) for k in range(0, 7) for p in itertools.permutations(NAMES, k)]  # 1957 ordered sub-registries
    if tier_ == "quick":
        orders = [NAMES, NAMES[:3]] + rng.sample(orders, 198)
    cases = []
    # detection: each case = one registry order x a slice of the strings
    per = 150
    for oi, order in enumerate(orders):
        sl = rng.sample(strings, min(len(strings), per if tier_ == "quick" else 400))
        cases.append({"kind": "detect", "order": order, "strings": sl})
    # resolve: every non-empty subset of the registered types of a registry, two argument orders
    reg_for_resolve = [NAMES, NAMES[:3], ["FloatString", "IntString", "BooleanString"]] + ([] if tier_ == "quick" else orders[::7])
    for order in reg_for_resolve + rng.sample(orders, 20 if tier_ == "quick" else 0):
        for extra in (False, True):
            cases.append({"kind": "resolve", "order": order, "extra_edge": extra, "strings": rng.sample(strings, min(len(strings), 500))})
    # round trip
    for i in range(0, len(strings), 200):
        cases.append({"kind": "roundtrip", "strings": strings[i:i + 200]})
    # disabled types through the library registry API
    for name in NAMES + list(ACTUAL.values()) + ["str", "String", "Int", "dat", "IsoDate"]:
        cases.append({"kind": "disable", "name": name, "strings": rng.sample(strings, min(len(strings), 300))})
    for name in ["date", "time", "datetime", "IsoTimeString", "IsoDatetimeString"]:
        cases.append({"kind": "disable", "name": name, "registered_twice": True, "strings": rng.sample(strings, min(len(strings), 300)) + ["10:30:00", "2018-01-02T10:30:00", "2018-01-02"]})
    # strings side by side in one list / one mapping: each must be classified as if it stood alone
    for i in range(400 if tier_ == "quick" else 6000):
        r = rng_for(PROP, "coll", seed_, i)
        pool = [s for s in strings if len(s) < 30]
        cases.append({"kind": "collection", "order": r.choice([NAMES, NAMES, NAMES[:3]] + orders[:50]), "strings": r.sample(pool, r.randint(2, 4)),
                      "as": r.choice(["list", "dict"])})
    # types registered after the generator was created (same registry object) must count like types registered before
    for i in range(60 if tier_ == "quick" else 600):
        r = rng_for(PROP, "late", seed_, i)
        cases.append({"kind": "late", "strings": r.sample(strings, r.randint(2, 4)) + r.sample(["2018-01-02", "10:30:00", "2018-01-02T10:30:00", "x" * 25], 2)})
    # --disable-str-serializable-types through the Cli class: one object run twice / configured twice (no disabled type in any output)
    for i in range(40 if tier_ == "quick" else 400):
        r = rng_for(PROP, "cli", seed_, i)
        names = r.sample(NAMES + list(ACTUAL.values()), r.randint(1, 3))
        cases.append({"kind": "cli_disable", "disable": names, "datetime": r.random() < 0.5, "fw": r.choice(["dataclasses", "attrs", "base", "pydantic"]),
                      "first": r.choice(["same", "nothing-disabled", "other-disabled", "datetime-only"]), "again": r.random() < 0.5})
    # multi-string fields end to end
    for i in range(300 if tier_ == "quick" else 5000):
        r = rng_for(PROP, "multi", seed_, i)
        cases.append({"kind": "multi", "order": r.choice(orders), "strings": r.sample(strings, r.randint(2, 4))})
    return cases


def setup_worker():
    import warnings
    warnings.simplefilter("ignore")


_ACC = {}


def accepts(P, s):
    k = (P, s)
    if k not in _ACC:
        try:
            P.to_internal_value(s)
            _ACC[k] = (True, None)
        except ValueError:
            _ACC[k] = (False, None)
        except Exception as e:
            _ACC[k] = (False, f"{type(e).__name__}: {e}")
    return _ACC[k]


def admits(t, s, D):
    """does IR type t admit the string s?"""
    if t is str:
        return True
    if isinstance(t, D.StringLiteral):
        return (not t.overflowed and s in t.literals) or t.overflowed
    if isinstance(t, type) and issubclass(t, D.StringSerializable):
        return accepts(t, s)[0]
    if isinstance(t, D.DUnion):
        return any(admits(m, s, D) for m in t.types)
    if isinstance(t, D.DOptional):
        return admits(t.type, s, D)
    return False


def run_case(case):
    import json_to_models.dynamic_typing as D
    from json_to_models.generator import MetadataGenerator
    from .. import driver
    wit = []
    cnt = {}
    kind = case["kind"]

    def W(mech, msg):
        if len(wit) < 6:
            wit.append({"property": PROP, "mechanism": mech, "msg": msg[:500]})

    if kind == "detect":
        classes = [driver.STR_CLASSES[n] for n in case["order"]]
        reg = driver.make_str_registry(case["order"])
        g = MetadataGenerator(str_types_registry=reg)
        n_acc = 0
        for s in case["strings"]:
            exp = None
            for P in classes:
                ok, odd = accepts(P, s)
                if odd:
                    W(f"parser-raises-non-valueerror:{P.__name__}:{odd.split(':')[0]}", f"{P.__name__}.to_internal_value({s!r}) raised {odd}")
                if ok:
                    exp = P
                    break
            try:
                got = g.generate({"a": s})["a"]
            except Exception as e:
                W(f"detection-raises:{type(e).__name__}", f"generate({{'a': {s!r}}}) with registry {case['order']} raised {type(e).__name__}: {e}")
                continue
            if isinstance(got, type) and issubclass(got, D.StringSerializable):
                n_acc += 1
                if got not in classes:
                    W("unregistered-type-detected", f"{s!r} classified as {got.__name__} which is not in registry {case['order']}")
                elif not accepts(got, s)[0]:
                    W("classified-but-parser-rejects", f"{s!r} classified as {got.__name__} but its parser rejects it")
                elif got is not exp:
                    W("not-first-accepting-type", f"{s!r} classified as {got.__name__}, first accepting registered type is {exp.__name__} (order {case['order']})")
            else:
                if exp is not None:
                    W("accepted-string-not-classified", f"{s!r} is accepted by {exp.__name__} but was typed {got}")
                if not (got is str or isinstance(got, D.StringLiteral)):
                    W("string-typed-as-non-string", f"{s!r} typed {got!r}")
        cnt = {"detections": len(case["strings"]), "detected_pseudo": n_acc}
        nontrivial = n_acc > 0
    elif kind == "resolve":
        classes = [driver.STR_CLASSES[n] for n in case["order"]]
        reg = driver.make_str_registry(case["order"])
        if case["extra_edge"] and D.IsoDateString in classes and D.IsoDatetimeString in classes:
            # a second, semantically valid replacement edge (isoparse accepts date-only strings)
            reg.replaces.add((D.IsoDateString, D.IsoDatetimeString))
        corpus = case["strings"]
        n_calls = n_single = 0
        for k in range(1, len(classes) + 1):
            for sub in itertools.combinations(classes, k):
                for args in (sub, tuple(reversed(sub))):
                    try:
                        res = reg.resolve(*args)
                    except Exception as e:
                        W(f"resolve-raises:{type(e).__name__}", f"resolve{tuple(a.__name__ for a in args)} raised {e}")
                        continue
                    n_calls += 1
                    res = list(res)
                    if not res:
                        W("resolve-empty", f"resolve{tuple(a.__name__ for a in args)} returned nothing")
                        continue
                    for T in res:
                        if T not in classes:
                            W("resolve-unregistered", f"resolve{tuple(a.__name__ for a in args)} returned unregistered {T}")
                    if len(res) == 1:
                        n_single += 1
                        T = res[0]
                        for s in corpus:
                            for Mc in args:
                                if accepts(Mc, s)[0] and not accepts(T, s)[0]:
                                    W("resolve-unsound", f"resolve{tuple(a.__name__ for a in args)} = {T.__name__} but {s!r} is accepted by "
                                                         f"{Mc.__name__} and rejected by {T.__name__}")
                                    break
                            else:
                                continue
                            break
        cnt = {"resolve_calls": n_calls, "resolve_single_results": n_single}
        nontrivial = n_single > 0
    elif kind == "roundtrip":
        n_rt = 0
        for s in case["strings"]:
            for P in driver.STR_CLASSES.values():
                if not accepts(P, s)[0]:
                    continue
                v = P.to_internal_value(s)
                try:
                    r = v.to_representation()
                    v2 = P.to_internal_value(r)
                except Exception as e:
                    W(f"roundtrip-raises:{P.__name__}", f"{P.__name__}: {s!r} -> render/parse raised {type(e).__name__}: {e}")
                    continue
                n_rt += 1
                same = (v2 == v) or (isinstance(v, float) and isinstance(v2, float) and math.isnan(v) and math.isnan(v2))
                if not same or not isinstance(r, str) or type(v2) is not type(v):
                    W(f"roundtrip-differs:{P.__name__}", f"{P.__name__}: parse({s!r}) = {v!r}, rendered {r!r}, parsed again {v2!r}")
        cnt = {"roundtrips": n_rt}
        nontrivial = n_rt > 0
    elif kind == "disable":
        reg = driver.make_str_registry(NAMES)
        name = case["name"]
        if case.get("registered_twice"):
            # what repeated CLI runs with --datetime in one process do: the datetime classes are registered again
            from json_to_models.dynamic_typing import register_datetime_classes
            register_datetime_classes(reg)
        reg.remove_by_name(name)
        should_go = {n for n in NAMES if n == name or ACTUAL[n] == name}
        left = {c.__name__ for c in reg}
        if left != set(NAMES) - should_go:
            W("remove-by-name-wrong-set", f"remove_by_name({name!r}) left {sorted(left)}, expected {sorted(set(NAMES) - should_go)}")
        for a, b in reg.replaces:
            if a.__name__ in should_go or b.__name__ in should_go:
                W("replace-edge-survives-removal", f"replacement ({a.__name__}, {b.__name__}) survives remove_by_name({name!r})")
        g = MetadataGenerator(str_types_registry=reg)
        n = 0
        samples = [{"a": s} for s in case["strings"]]
        for smp in samples:
            t = g.generate(smp)["a"]
            n += 1
            if isinstance(t, type) and issubclass(t, D.StringSerializable) and t.__name__ in should_go:
                W("disabled-type-in-ir", f"{smp['a']!r} typed {t.__name__} after remove_by_name({name!r})")
        # emitted text (pydantic renders actual types): string data must not be annotated with the disabled actual type
        if should_go:
            from json_to_models.registry import ModelRegistry
            from json_to_models.models.base import generate_code
            from json_to_models.models.pydantic import PydanticModelCodeGenerator
            from json_to_models.models.structure import compose_models_flat
            for smp in samples[:60]:
                r = ModelRegistry()
                r.process_meta_data(g.generate(smp), model_name="Root")
                r.merge_models(g)
                r.generate_names()
                code = generate_code(compose_models_flat(r.models_map), PydanticModelCodeGenerator)
                ann = [ln.split(":", 1)[1].split("=")[0].strip() for ln in code.split("\n") if ln.startswith("    a:")]
                for gone in should_go:
                    if ann and (ann[0] == ACTUAL[gone] or gone in ann[0]):
                        W("disabled-type-in-output", f"{smp['a']!r} annotated {ann[0]} after remove_by_name({name!r})")
        cnt = {"disable_detections": n, "types_removed": len(should_go)}
        nontrivial = bool(should_go)
    elif kind == "cli_disable":
        import json
        import re
        import tempfile
        from .. import clireuse
        doc = [{"a": "1", "b": "2.5", "c": "true", "d": "2018-01-02", "e": "10:30:00", "f": "2018-01-02T10:30:00", "g": ["1", "2"], "h": {"k": "1.5"},
                "i": ["true", "false"], "j": [{"d2": "1999-12-31", "n": "7"}]}]
        gone = {n for n in NAMES for name in case["disable"] if n == name or ACTUAL[n] == name}
        with tempfile.TemporaryDirectory(prefix="j2m_c09_") as td:
            with open(td + "/in.json", "w") as f:
                json.dump(doc, f)
            base = ["-m", "Root", "in.json", "-f", case["fw"]]
            second = base + (["--datetime"] if case["datetime"] else []) + ["--disable-str-serializable-types"] + case["disable"]
            first = {"same": second, "nothing-disabled": base + ["--datetime"], "datetime-only": base + ["--datetime"],
                     "other-disabled": base + ["--disable-str-serializable-types"] + [n for n in NAMES if n not in gone][:1]}[case["first"]]
            r = clireuse.run(first, second, td, again=case["again"])
        if getattr(r, "timed_out", False):
            return {"status": "inconclusive", "why": "case timeout", "witnesses": [], "counters": {}}
        if r.returncode != 0:
            W("cli-reuse-run-fails", f"Cli object: parse_args({first}); run(); parse_args({second}); run(){'; run()' if case['again'] else ''} failed: "
                                     f"{r.stderr.strip().splitlines()[-1][:200] if r.stderr.strip() else r.returncode}")
        else:
            body = r.stdout  # (the header holds the command line, which names the disabled types: cut the first statement off)
            try:
                import ast
                first = ast.parse(body).body[0]
                if isinstance(first, ast.Expr) and isinstance(first.value, ast.Constant) and isinstance(first.value.value, str):
                    body = "\n".join(body.split("\n")[first.end_lineno:])
            except (SyntaxError, ValueError, IndexError):
                pass
            for n in sorted(gone):
                # frameworks other than pydantic spell the pseudo-type by its class name; pydantic annotates the actual type
                if case["fw"] != "pydantic" and re.search(rf"\b{n}\b", body):
                    W("disabled-type-in-cli-output", f"{n} appears in the output of the {'second ' if case['again'] else ''}run after parse_args({first}); run(); "
                                                     f"parse_args({second}): {[ln.strip() for ln in body.splitlines() if n in ln][:2]}")
                elif case["fw"] == "pydantic" and re.search(rf":\s*(Optional\[|List\[|Dict\[str, )*{ACTUAL[n]}\b", body):
                    W("disabled-type-in-cli-output", f"a string field is annotated {ACTUAL[n]} although {n} is disabled ({second}): "
                                                     f"{[ln.strip() for ln in body.splitlines() if re.search(rf'[:\[ ]{ACTUAL[n]}\b', ln)][:2]}")
        cnt = {"cli_disable_runs": 1, "types_removed": len(gone)}
        nontrivial = bool(gone)
    elif kind == "collection":
        from ..monitors import dump_type
        reg = driver.make_str_registry(case["order"])
        g = MetadataGenerator(str_types_registry=reg, dict_keys_fields=["a"] if case["as"] == "dict" else None)
        ss = case["strings"]
        together = {"a": list(ss)} if case["as"] == "list" else {"a": {f"k{j}": x for j, x in enumerate(ss)}}
        apart = [{"a": [x]} if case["as"] == "list" else {"a": {"k": x}} for x in ss]
        try:
            t1 = g.generate(together)["a"]
            t2 = g.generate(*apart)["a"]
            t3 = g.generate({"a": list(reversed(ss))} if case["as"] == "list" else {"a": {f"k{j}": x for j, x in enumerate(reversed(ss))}})["a"]
            d1, d2, d3 = (repr(dump_type(t, lambda m: 0)) for t in (t1, t2, t3))
            if d1 != d2 or d1 != d3:
                W("classification-depends-on-neighbours", f"strings {ss!r} (registry {case['order']}) side by side in one {case['as']} are typed {t1}, one per sample {t2}, "
                                                          f"reversed {t3}")
        except Exception as e:
            W(f"detection-raises:{type(e).__name__}", f"generate over {ss!r} raised {type(e).__name__}: {e}")
        cnt = {"collections": 1}
        nontrivial = True
    elif kind == "late":
        from ..monitors import dump_type
        from json_to_models.dynamic_typing import register_datetime_classes
        reg = driver.make_str_registry(NAMES[:3])
        g = MetadataGenerator(str_types_registry=reg)
        register_datetime_classes(reg)  # after the generator exists
        g2 = MetadataGenerator(str_types_registry=driver.make_str_registry(NAMES))
        g3 = MetadataGenerator(str_types_registry=driver.make_str_registry(NAMES[:3]))
        ss = case["strings"]
        try:
            forms = ([{"a": x, "b": [x]} for x in ss], [{"a": ss}])
            for samples in forms:
                t1 = g.generate(*samples)
                t2 = g2.generate(*samples)
                t3 = g3.generate(*samples)
                d1, d2, d3 = (repr(dump_type(t, lambda m: 0)) for t in (t1, t2, t3))
                # either consistent view is accepted: the registry as it is at call time, or as it was when the generator was made
                if d1 != d2 and d1 != d3:
                    W("late-registered-types-treated-inconsistently",
                      f"strings {ss!r}: a generator created before register_datetime_classes() gives {t1}; with the types registered from "
                      f"the start the result is {t2}, without them {t3}")
                    break
        except Exception as e:
            W(f"detection-raises:{type(e).__name__}", f"{type(e).__name__}: {e}")
        cnt = {"late_registrations": 1}
        nontrivial = True
    else:  # multi: several strings in one field, end to end
        reg = driver.make_str_registry(case["order"])
        g = MetadataGenerator(str_types_registry=reg)
        try:
            t = g.generate(*[{"a": s} for s in case["strings"]])["a"]
        except Exception as e:
            W(f"detection-raises:{type(e).__name__}", f"generate over {case['strings']!r} raised {type(e).__name__}: {e}")
            t = None
        if t is not None:
            for s in case["strings"]:
                if not admits(t, s, D):
                    W("merged-type-rejects-string", f"strings {case['strings']!r} with registry {case['order']} typed {t} which does not admit {s!r}")
                    break
        cnt = {"multi_fields": 1}
        nontrivial = t is not None and not (t is str)
    return {"status": "violated" if wit else "held", "witnesses": wit, "counters": cnt, "nontrivial": bool(nontrivial), "digest": digest(case)}


def main():
    cases = gen_cases_for(tier(), seed())
    v = Verdict(PROP, "exploration",
                "strings from a structured grammar (signs, exponents, underscores, whitespace, non-ASCII digits, case variants of "
                "true/false/nan/inf, ISO date/time/datetime fragments with and without zone, week/ordinal forms, near-misses, mutations) x "
                "ordered sub-registries of the six shipped pseudo-types (quick: 200 of 1957, thorough: all); resolve() on every non-empty "
                "subset in two argument orders (also with a second valid replacement edge); remove_by_name for class / actual-type / "
                "near-miss names, and --disable-str-serializable-types on a Cli object that is run twice / configured twice in one process; parse-render-parse for every accepted string; multi-string fields end to end. non-trivial = a case in "
                "which at least one string was accepted / one resolve had a single result",
                ["'parser accepts' means to_internal_value returns without ValueError"])
    results, infra = run_shards(PROP, cases, timeout_per_case=120)
    v.infra = infra
    for c, r in zip(cases, results):
        view = {k: (x[:6] if isinstance(x, list) else x) for k, x in c.items()}
        v.add(c, r, sample_view=view)
    v.extra["resolve_subsets_exhaustive"] = True
    v.extra["ordered_subregistries_exhaustive"] = tier() == "thorough"
    return v.finish(floor_nontrivial=50, monitors_required=("detections", "detected_pseudo", "resolve_calls", "resolve_single_results",
                                                             "roundtrips", "disable_detections", "multi_fields", "collections", "late_registrations", "cli_disable_runs"))
