"""C04 - emitted classes denote exactly the inferred model graph (IR <-> program equivalence monitor)."""
from . import pipeline_common as pc
from ..common import Verdict, run_shards, seed, tier

PROP = "C04"
N = {"quick": 15000, "thorough": 200000}


def run_case(case):
    r = pc.run_case(case, PROP, props=("C04",))
    c = r.get("counters") or {}
    r["nontrivial"] = r["status"] in ("held", "violated") and c.get("c04_fields", 0) >= 3 and c.get("c04_defaults", 0) >= 1 \
        and c.get("c04_refs", 0) >= 1
    return r


def main():
    cases = pc.gen_cases(PROP, tier(), seed(), N[tier()])
    v = Verdict(PROP, "translation_validation",
                "per emitted program: the class table extracted from the loaded module (framework introspection) is compared "
                "field by field with an independent rendering of ModelRegistry.models_map (name, recoverable original key, "
                "typing object, default kind); non-trivial = >=3 fields with >=1 default and >=1 model reference",
                ["ir_to_typing is written from the documented meaning of the IR node classes, not by calling to_typing_code",
                 "python field names are obtained from the public GeneratorClass.convert_field_name"])
    results, infra = run_shards(PROP, cases, timeout_per_case=8)
    v.infra = infra
    progs = 0
    for c, r in zip(cases, results):
        if r["status"] == "blocked":
            v.counters["blocked_by_load"] += 1
            r = dict(r, status="outside")
        if r["status"] in ("held", "violated"):
            progs += 1
        v.add(c, r, sample_view={"samples": c["models"][0][1][:2], "opts": c["opts"]})
    v.extra.update(programs=progs, disagreements_checked=v.counters.get("c04_fields", 0))
    return v.finish(floor_nontrivial=50, monitors_required=("c04_fields", "c04_alias", "c04_defaults", "c04_refs"))
