"""C18 - generated attrs/dataclass models construct from their samples and convert (instance monitor)."""
import math
import typing
from typing import Dict, List, Union

from .. import gen
from ..common import Verdict, digest, rng_for, run_shards, seed, tier

PROP = "C18"
N = {"quick": 8000, "thorough": 120000}
PV = {
    "IntString": ["1", "42", "-7", " 12 ", "1_000", "+5"],
    "FloatString": ["2.5", "1e5", "nan", "inf", ".5", "-0.0", "3"],
    "BooleanString": ["true", "False", "TRUE"],
    "IsoDateString": ["2018-01-02", "1999-12-31"],
    "IsoTimeString": ["10:30:00", "23:59:59", "07:05"],
    "IsoDatetimeString": ["2018-01-02T10:30:00", "2018-01-02T10:30:00Z", "1999-12-31T23:59:59.999"],
}
PATHS = ["S", "S", "O.S", "L.S", "L.L.S", "O.L.S", "D.S", "D.L.S", "L.D.S", "L.O.S", "O.D.S", "L.L.L.S"]


def value_for(path, P, rng, allow_empty=True):
    tok, rest = path[0], path[1:]
    if tok == "S":
        if rng.random() < 0.04:
            # a string today's parsers reject (decimal comma, padded booleans, ...): the field is then not pseudo-typed at all
            return rng.choice(gen.NEAR_MISS_STR)
        return rng.choice(PV[P])
    if tok == "O":
        return None if rng.random() < 0.4 else value_for(rest, P, rng)
    if tok == "L":
        n = rng.choice([0, 1, 2, 3]) if allow_empty else rng.choice([1, 2])
        return [value_for(rest, P, rng) for _ in range(n)]
    if tok == "D":
        n = rng.choice([0, 1, 2]) if allow_empty else rng.choice([1, 2])
        return {f"k{rng.randrange(30)}": value_for(rest, P, rng) for _ in range(n)}
    raise ValueError(tok)


def gen_cases_for(seed_, n):
    cases = []
    for i in range(n):
        rng = rng_for(PROP, seed_, i)
        full = rng.random() < 0.5
        reg = gen.STR_TYPES if full else gen.STR_TYPES[:3]
        nf = rng.randint(1, 5)
        keys = rng.sample(["alpha", "beta", "gamma", "delta", "userId", "first-name", "class", "id", "created", "value", "tags", "misc",
                           # names a framework renames on its own (attrs: self; pydantic: json, copy), keyword / builtin spellings
                           "self", "json", "from", "type"], nf + 2)
        spec = []
        for k in keys[:nf]:
            spec.append((k, rng.choice(PATHS).split("."), rng.choice(reg)))
        twin_spec = None
        if rng.random() < 0.35:
            twin_spec = [(k, path, rng.choice([t for t in reg if t != P] or [P])) for k, path, P in spec]
        samples = []
        for s in range(rng.randint(1, 4)):
            o = {}
            for k, path, P in spec:
                if rng.random() < 0.15:
                    continue
                if rng.random() < 0.1 and path[0] != "S":
                    o[k] = None
                    continue
                o[k] = value_for(path, P, rng, allow_empty=(s > 0))
            # untouched kinds
            o[keys[nf]] = rng.choice([1, 2.5, True, "plain text", ["a", "b"], {"inner": "1", "n": 2}, None, [1, "x"], ["1", "x"]])
            if rng.random() < 0.5:
                o[keys[nf + 1]] = rng.choice(["1", "x"]) if rng.random() < 0.5 else {"sub": value_for(["L", "S"], rng.choice(reg), rng), "t": "s"}
            if twin_spec:
                # a nested model whose fields have the same names and container paths as the root's but another pseudo-type
                o["twin"] = {k: value_for(path, P2, rng, allow_empty=False) for k, path, P2 in twin_spec}
            samples.append(o)
        fw = rng.choice(["attrs", "dataclasses"])
        conv = rng.random() < 0.7
        cases.append({"i": i, "models": [["Root", samples]],
                      "opts": {"framework": fw, "flat": rng.random() < 0.7, "merge": [["exact"]], "max_literals": rng.choice([0, 10]),
                               "convert_unicode": True, "registry": reg, "dkf": [], "dkr": [r"k\d+"], "post_init_converters": conv,
                               "meta": rng.random() < 0.5,
                               "decorator_kwargs": rng.choice([None] * 6 + [{"slots": True}, {"slots": True}, {"repr": False}])}})
    # general workload as well (construction must never raise)
    for i in range(n // 4):
        rng = rng_for(PROP, "gen", seed_, i)
        jc = gen.json_case(rng)
        opts = gen.options(rng, jc["samples"], frameworks=["attrs", "dataclasses"])
        cases.append({"i": n + i, "models": [["Root", jc["samples"]]], "opts": opts})
    return cases


def pure_path(T, is_pseudo):
    """(tokens, P) if the annotation is a pure Optional/List/Dict path to one pseudo-type, else None"""
    toks = []
    while True:
        if is_pseudo(T):
            return toks + ["S"], T
        org = typing.get_origin(T)
        if org is Union:
            args = [a for a in typing.get_args(T) if a is not type(None)]
            if len(args) != 1 or type(None) not in typing.get_args(T):
                return None
            toks.append("O")
            T = args[0]
        elif org in (list, List):
            toks.append("L")
            T = typing.get_args(T)[0]
        elif org in (dict, Dict):
            toks.append("D")
            T = typing.get_args(T)[1]
        else:
            return None


def expected(v, toks, P):
    if v is None:
        return None
    t, rest = toks[0], toks[1:]
    if t == "S":
        return P.to_internal_value(v)
    if t == "O":
        return expected(v, rest, P)
    if t == "L":
        return [expected(e, rest, P) for e in v]
    if t == "D":
        return {k: expected(e, rest, P) for k, e in v.items()}


def same(a, b, P):
    if a is None or b is None:
        return a is None and b is None
    if isinstance(b, list):
        return isinstance(a, list) and len(a) == len(b) and all(same(x, y, P) for x, y in zip(a, b))
    if isinstance(b, dict):
        return isinstance(a, dict) and a.keys() == b.keys() and all(same(a[k], b[k], P) for k in b)
    if type(a) is not P:
        return False
    if isinstance(b, float) and math.isnan(b):
        return isinstance(a, float) and math.isnan(a)
    return a == b


def unchanged(got, passed):
    """'left untouched': the same object, or an equal value of exactly the same types (a copy is not a change)"""
    if got is passed:
        return True
    if type(got) is not type(passed):
        return False
    if isinstance(got, list):
        return len(got) == len(passed) and all(unchanged(a, b) for a, b in zip(got, passed))
    if isinstance(got, dict):
        return got.keys() == passed.keys() and all(unchanged(got[k], passed[k]) for k in got)
    if isinstance(got, float) and got != got:
        return passed != passed
    return got == passed


def run_case(case):
    from .. import analysis, oracle
    opts = case["opts"]
    fw = opts["framework"]
    models = [(n, s) for n, s in case["models"]]
    a = analysis.Analysis(models, opts)
    wit = []

    def W(mech, msg):
        if len(wit) < 6:
            wit.append({"property": PROP, "mechanism": mech, "msg": msg[:600]})

    try:
        if not a.generate():
            w = a.w[0]
            if "string_converters.py" in w["mechanism"]:
                W("converter-path-computation-raises", w["msg"])
                return {"status": "violated", "witnesses": wit, "counters": {}, "nontrivial": True, "digest": digest(case)}
            return {"status": "outside", "why": "generation raised (C01 reports it)", "witnesses": [], "counters": {}}
        if not a.load() or not a.class_maps():
            return {"status": "outside", "why": "module does not load (C03 reports it)", "witnesses": [], "counters": {}}
        a.c01_c02(want_c02=False)
        if any(w["property"] == "C01" for w in a.w) or "C01" in a.blocked:
            return {"status": "outside", "why": "C01 acceptance failed (reported there)", "witnesses": [], "counters": {}}
        orc = a.orc
        conv_on = bool(opts["post_init_converters"])
        cnt = {"instances": 0, "converted_fields": 0, "untouched_fields": 0, "deep_paths": 0, "attrs_field_converters": 0,
               "fw_" + fw: 1, "converters_" + ("on" if conv_on else "off"): 1}
        for cls, objs in orc.routed.items():
            bykey, _ = orc.bykey(cls)
            info = orc.by_cls[cls]
            for o in objs.values():
                kwargs = {}
                for key, v in o.items():
                    f = bykey.get(key)
                    if f is not None:
                        kwargs[f.name] = v
                try:
                    inst = cls(**kwargs)
                except Exception as e:
                    if type(e).__name__ == "CaseTimeout":
                        raise
                    mech = f"construction-raises:{type(e).__name__}"
                    if fw == "attrs" and not conv_on:
                        # per-field converter form: which pseudo-type's constructor was used as converter?
                        bad = sorted({pp[1].__name__ for f in info.fields.values() for pp in [pure_path(f.ann, oracle.is_pseudo)]
                                      if pp and pp[0] in (["S"], ["O", "S"]) and pp[1].__name__ not in ("IntString", "FloatString")})
                        if bad:
                            mech = "attrs-field-converter-is-class-constructor"
                    W(mech, f"{cls.__name__}(**{oracle.short(kwargs, 200)}) raised {type(e).__name__}: {e}" + (f" [converter= fields of {bad}]" if mech.startswith("attrs-field") else ""))
                    continue
                cnt["instances"] += 1
                for f in info.fields.values():
                    if f.name not in kwargs:
                        continue
                    passed = kwargs[f.name]
                    got = getattr(inst, f.name)
                    pp = pure_path(f.ann, oracle.is_pseudo)
                    converts = False
                    if pp and conv_on:
                        converts = True
                    elif pp and fw == "attrs" and not conv_on and pp[0] in (["S"], ["O", "S"]):
                        converts = pp[1].__name__ in ("IntString", "FloatString")  # Boolean/Iso*: listed known finding
                        cnt["attrs_field_converters"] += 1
                        if not converts:
                            continue
                    if converts:
                        toks, P = pp
                        cnt["converted_fields"] += 1
                        cnt["deep_paths"] += int(len(toks) >= 3)
                        try:
                            exp = expected(passed, toks, P)
                        except Exception as e:
                            W("oracle-parser-rejects-routed-value", f"{cls.__name__}.{f.name}: {passed!r} not parsable by {P.__name__}: {e}")
                            continue
                        if not same(got, exp, P):
                            W("converted-value-differs", f"{cls.__name__}.{f.name} ({'.'.join(toks)} -> {P.__name__}): sample value {oracle.short(passed, 120)}, "
                                                         f"instance holds {oracle.short(got, 120)} (types {oracle.short([type(x).__name__ for x in (got if isinstance(got, list) else [got])], 60)}), "
                                                         f"expected parse of the original")
                    else:
                        cnt["untouched_fields"] += 1
                        if not unchanged(got, passed) and not (fw == "attrs" and not conv_on and pp):
                            W("unconverted-field-changed", f"{cls.__name__}.{f.name} ({oracle.tstr(f.ann)}): passed {oracle.short(passed, 100)}, instance holds {oracle.short(got, 100)}")
        return {"status": "violated" if wit else "held", "witnesses": wit, "counters": cnt, "nontrivial": cnt["deep_paths"] >= 1, "digest": digest(case)}
    finally:
        a.close()


def main():
    cases = gen_cases_for(seed(), N[tier()])
    v = Verdict(PROP, "exploration",
                "objects with 1-5 pseudo-typed fields at nesting paths over {Optional, List, Dict} up to depth 3 (S, O.S, L.S, L.L.S, O.L.S, D.S, "
                "D.L.S, L.D.S, L.O.S, O.D.S, L.L.L.S; Dict via id-keyed objects and a dict-keys regex), empty containers and nulls, mixed with "
                "untouched kinds (numbers, plain strings, lists, nested objects, mixed lists) x {attrs, dataclasses} x converters on/off x "
                "registry with/without datetime types x meta; plus general schema-derived inputs. Every routed object is passed to the emitted "
                "class; instance attributes are compared with the path-wise parse of the original / identity for other fields. "
                "non-trivial = >=1 converted field at path depth >=3",
                ["judged only where C01 acceptance passed",
                 "attrs with converters off: the per-field converter form is judged for IntString/FloatString only (Boolean/Iso*: known finding)"])
    results, infra = run_shards(PROP, cases, timeout_per_case=8)
    v.infra = infra
    for c, r in zip(cases, results):
        v.add(c, r, sample_view={"samples": c["models"][0][1][:2], "framework": c["opts"]["framework"], "converters": c["opts"]["post_init_converters"]})
    return v.finish(floor_nontrivial=100, monitors_required=("instances", "converted_fields", "untouched_fields", "deep_paths", "attrs_field_converters",
                                                             "converters_on", "converters_off"))
