"""C07 - sample order and repetition do not change what is inferred (canonical unfolding compared across variants)."""
import itertools

from .. import gen
from ..common import Verdict, digest, rng_for, run_shards, seed, tier

PROP = "C07"
N = {"quick": 3000, "thorough": 30000}


def gen_cases_for(seed_, n):
    cases = []
    for i in range(n):
        rng = rng_for(PROP, seed_, i)
        sch = gen.Schema(rng, rng.choice(["merge", "merge", "general", "strings", "literals", "small"]))
        samples = sch.samples(n=rng.choice([2, 2, 3, 3, 4, 5]))
        opts = gen.options(rng, samples, frameworks=["dataclasses"])
        opts.update(framework="dataclasses", meta=True, max_literals=17, flat=True, post_init_converters=False)
        if i % 6 == 5:
            # literal-set boundary: a field whose distinct plain strings number exactly 14 / 15 / 16 over the samples, with repeats
            k = rng.choice([14, 15, 15, 15, 16])
            vals = [f"v{j}" for j in range(k)]
            rng.shuffle(vals)
            ns = rng.choice([2, 3, 4])
            cuts = sorted(rng.sample(range(1, k), ns - 1))
            parts = [vals[a:b] for a, b in zip([0] + cuts, cuts + [k])]
            shape = rng.choice(["list", "scalar"])
            if shape == "list":
                samples = [{"colour": part + ([part[0]] if rng.random() < 0.5 else []), "n": j} for j, part in enumerate(parts)]
                samples = samples[:5]
            else:
                # one distinct value per sample: k samples (the literal set is folded one sample at a time)
                samples = [{"colour": v, "n": j % 3} for j, v in enumerate(vals)]
            opts["merge"] = [["exact"]]
        if i % 20 == 7:
            # samples that are equal for Python (1 == 1.0 == True) but differ in JSON type, next to each other
            a, b = rng.choice([(1, 1.0), (0, False), (1, True), (0.0, False), (10, 10.0), ([1], [1.0]), ({"k": 1}, {"k": True}), ([0, 1], [False, True])])
            base = {"id": rng.choice([1, "x"]), "price": a}
            samples = [dict(base), dict(base, price=b)]
            if rng.random() < 0.5:
                samples.append(dict(base, price=rng.choice([a, b])))
            if rng.random() < 0.4:
                samples = [{"wrap": smp, "n": 1} for smp in samples]
        if i % 20 == 13:
            # three nested models that form one merge group, with a field that is float / int / optional int among them;
            # the sample order decides the registration (= merge) order
            parts = [{"km": 1.5, "x": 1, "y": 2}, {"km": 1, "x": 1, "y": 2}, [{"km": 2, "x": 1, "y": 2}, {"x": 1, "y": 2}]]
            keys = rng.sample(["alpha", "beta", "gamma", "delta"], 3)
            samples = [{k: v} for k, v in zip(keys, parts)]
            opts["merge"] = rng.choice([[["percent", 0.7], ["number", 10]], [["exact"]], [["percent", 0.5]], [["number", 2]]])
        if i % 20 == 3:
            # nested models under different keys that form one merge group and disagree about one string field: long free text,
            # short literal, pseudo-typed, null, absent - required in one model, optional in another; the sample order decides
            # which model is registered (and merged) first
            pool = ["x" * 25, "another long string value!", "short", "tiny", "12", "2.5", "true", None, "MISSING", "2018-01-02"]
            vals = [rng.choice(pool) for _ in range(5)]

            def obj(v, j):
                o = {"name": "n", "x": j, "y": 2}
                if v != "MISSING":
                    o["note"] = v
                return o
            parts = [obj(vals[0], 0), [obj(vals[1], 1), obj(vals[2], 2)], obj(vals[3], 3), [obj(vals[4], 4)]]
            keys = rng.sample(["sender", "recipient", "owner", "agent", "courier"], rng.choice([2, 3, 4]))
            samples = [{k: v} for k, v in zip(keys, parts)]
            opts["merge"] = rng.choice([[["percent", 0.7], ["number", 10]], [["exact"]], [["percent", 0.5]], [["number", 2]]])
        if i % 20 == 17:
            # a similarity chain of 5-8 nested models (neighbours share 7 of 9 keys, all others at most 6 of 10) whose members are spread
            # over the samples, both ends in one sample: the merge groups met first are joined only by members registered later
            L, W = rng.randint(5, 8), 8
            objs = {f"c{j}": {f"k{x}": rng.choice([1, 2]) for x in range(j, j + W)} for j in range(L)}
            ns = rng.choice([2, 2, 3])
            where = {j: rng.randrange(ns) for j in range(L)}
            where[0] = where[L - 1] = 0
            for j in range(1, L - 1):
                if rng.random() < 0.7:
                    where[j] = rng.randrange(1, ns)
            samples = [{f"c{j}": objs[f"c{j}"] for j in range(L) if where[j] == sx} for sx in range(ns)]
            samples = [smp for smp in samples if smp]
            opts["merge"] = rng.choice([[["percent", 0.7]], [["percent", 0.7]], [["percent", 0.75]], [["number", 7]]])
            opts["dkr"], opts["dkf"] = [], []
        cases.append({"i": i, "models": [["Root", samples]], "opts": opts, "vseed": rng.randrange(1 << 30)})
    return cases


def variants(samples, rng):
    n = len(samples)
    idx = list(range(n))
    out = []
    if n <= 4:
        perms = list(itertools.permutations(idx))[1:]
    else:
        perms = []
        for _ in range(12):
            p = idx[:]
            rng.shuffle(p)
            perms.append(tuple(p))
        perms.append(tuple(reversed(idx)))
    if len(perms) > 12:
        perms = rng.sample(perms, 12) + [tuple(reversed(idx))]
    for p in perms:
        out.append(("perm", list(p)))
    out.append(("dup-one", idx + [rng.randrange(n)]))
    out.append(("dup-first-front", [0] + idx))
    out.append(("dup-all", idx + idx))
    out.append(("interleave", [j for i in idx for j in (i, i)]))
    out.append(("dup-all-reversed", idx + idx[::-1]))
    return out


def canon_of(samples, opts):
    from .. import driver, mme, oracle
    run = driver.pipeline([("Root", samples)], opts)
    mod = mme.load(run.code)
    try:
        tab = mme.table(mod, "dataclasses")
        by_cls = {i.cls: i for i in tab.values()}
        root_name = run.root_ptrs[0].type.name
        roots = [i for i in tab.values() if i.name == root_name]
        if len(roots) != 1:
            raise LookupError(f"root class {root_name!r} not unique")
        return oracle.canon_cls(None, roots[0].cls, by_cls), len(tab), run.code
    finally:
        mme.unload(mod)


def first_diff(a, b, path="Root"):
    """human-readable first difference between two canonical forms"""
    if a == b:
        return None
    if isinstance(a, tuple) and isinstance(b, tuple) and a and b and a[0] == b[0] == "M":
        fa = {k: (d, t) for k, d, t in a[1]}
        fb = {k: (d, t) for k, d, t in b[1]}
        for k in sorted(set(fa) | set(fb), key=repr):
            if k not in fa or k not in fb:
                return f"{path}.{k}: field present in only one variant"
            if fa[k][0] != fb[k][0]:
                return f"{path}.{k}: default {fa[k][0]} vs {fb[k][0]}"
            if fa[k][1] != fb[k][1]:
                return first_diff(fa[k][1], fb[k][1], f"{path}.{k}") or f"{path}.{k}: types differ"
    if isinstance(a, tuple) and isinstance(b, tuple) and a and b and a[0] == b[0] and a[0] in ("L", "D"):
        return first_diff(a[1], b[1], path + "[]")
    if isinstance(a, tuple) and isinstance(b, tuple) and a and b and a[0] == b[0] == "U":
        only_a = [x for x in a[1] if x not in b[1]]
        only_b = [x for x in b[1] if x not in a[1]]
        if len(only_a) == 1 and len(only_b) == 1:
            return first_diff(only_a[0], only_b[0], path + "|") or f"{path}: union members differ"
        return f"{path}: union members differ: only in A {short(only_a)}, only in B {short(only_b)}"
    return f"{path}: {short(a)} vs {short(b)}"


def short(x, n=200):
    s = repr(x)
    return s if len(s) < n else s[:n] + "…"


def kind_of(msg):
    for k in ("default", "present in only one", "union members", "Lit"):
        if k in msg:
            return {"default": "optional-status", "present in only one": "field-presence", "union members": "type", "Lit": "literal-set"}[k]
    return "type"


def run_case(case):
    rng = rng_for("c07v", case["vseed"])
    samples = case["models"][0][1]
    opts = case["opts"]
    try:
        base, ncls, code = canon_of(samples, opts)
    except Exception as e:
        if type(e).__name__ == "CaseTimeout":
            raise
        return {"status": "outside", "why": f"base generation/load failed ({type(e).__name__}); reported by C01/C03", "witnesses": [], "counters": {}}
    wit = []
    nvar = 0
    for kind, order in variants(samples, rng):
        nvar += 1
        vs = [samples[j] for j in order]
        try:
            c, n2, code2 = canon_of(vs, opts)
        except Exception as e:
            if type(e).__name__ == "CaseTimeout":
                raise
            wit.append({"property": PROP, "mechanism": f"variant-raises:{type(e).__name__}", "msg": f"{kind} {order}: {type(e).__name__}: {e}",
                        "order": order})
            break
        if c != base or n2 != ncls:
            d = first_diff(base, c) or f"class count {ncls} vs {n2}"
            wit.append({"property": PROP, "mechanism": f"inference-differs:{kind.split('-')[0]}:{kind_of(d)}",
                        "msg": f"variant {kind} order={order}: {d}", "order": order})
            break
    keysets = [frozenset(s) for s in samples]
    nontrivial = len(set(keysets)) >= 2
    return {"status": "violated" if wit else "held", "witnesses": wit, "nontrivial": nontrivial, "digest": digest([samples, opts]),
            "counters": {"variants_compared": nvar, "pipeline_runs": nvar + 1, "classes": ncls}}


def main():
    cases = gen_cases_for(seed(), N[tier()])
    v = Verdict(PROP, "exploration",
                "base lists of 2-5 samples (shape families, pseudo-typed strings, literal sets) x merge policies; all permutations "
                "for <=4 samples (12 sampled + reversal for 5) and five duplication patterns; each variant is generated, loaded as "
                "dataclasses (original-key metadata on, literal limit 17) and its class graph unfolded canonically from the root "
                "(names, field order, union order ignored); non-trivial = the samples have >=2 distinct top-level key sets",
                ["canonical form is computed from the loaded emitted module (dataclasses rendering)"])
    results, infra = run_shards(PROP, cases, timeout_per_case=30)
    v.infra = infra
    for c, r in zip(cases, results):
        v.add(c, r, sample_view={"samples": c["models"][0][1][:3], "merge": c["opts"]["merge"]})
    return v.finish(floor_nontrivial=50, monitors_required=("variants_compared",))
