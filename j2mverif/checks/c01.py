"""C01 - generated models accept every sample they were inferred from (acceptance monitor)."""
from . import pipeline_common as pc
from ..common import Verdict, run_shards, seed, tier

PROP = "C01"
N = {"quick": 15000, "thorough": 200000}


def run_case(case):
    r = pc.run_case(case, PROP, props=("C01",))
    sh = r.get("shape") or {}
    r["nontrivial"] = r.get("n_samples", 0) >= 2 and sh.get("nested_objects", 0) >= 1 and sh.get("mixed_positions", 0) >= 1
    return r


def main():
    cases = pc.gen_cases(PROP, tier(), seed(), N[tier()])
    v = Verdict(PROP, "exploration",
                "cases = random schema-derived sample lists (shape families, mixed value kinds, pseudo-typed strings, empty "
                "containers, nulls) x framework x layout x merge policy x dict options x registry x literal limit; "
                "non-trivial = >=2 samples, >=1 nested object and >=1 position with >=2 value kinds; distinct by digest of "
                "(samples, options)",
                ["pydantic.v1 parse_obj is the acceptor for pydantic/sqlmodel output; sqlmodel is a stub package",
                 "base framework: 'field without default' is read as 'annotation is not Optional'",
                 "date/time-like strings in this workload are in canonical ISO form"])
    results, infra = run_shards(PROP, cases, timeout_per_case=8)
    v.infra = infra
    for c, r in zip(cases, results):
        if r["status"] == "blocked":
            r = dict(r, status="inconclusive", why="blocked: " + r["why"])
        v.add(c, r, sample_view={"samples": c["models"][0][1][:3], "opts": c["opts"]})
    return v.finish(floor_nontrivial=50, monitors_required=("orc_objects",), max_inconclusive_frac=0.25)
