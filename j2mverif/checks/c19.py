"""C19 - header and preamble never corrupt the generated module (ast of real CLI stdout under hostile argv)."""
import ast
import json
import os
import re
import shutil
import subprocess
import tempfile
from concurrent.futures import ThreadPoolExecutor

from ..common import NPROC, PY, Verdict, child_env, digest, rng_for, run_bounded, seed, tier

PROP = "C19"
N = {"quick": 400, "thorough": 8000}
HOSTILE = ['"', '""', '"""', '""""', '"""""', "'''", "'", "\\", "\\\\", '\\"""', '\\"', 'r"""', '"""\\', "\n", "\t", " ", "é", "日本", "😀", "ж",
           "\\x", "\\N", "\\u12", "\\U0001", "\\0", "#", "{", "}", "%s", "{0}", "$HOME", "`", ";", "x", "abc", "-", "--", "=", "\r", "\x0c",
           # invisible / directional characters (what a "sanitising" step might strip), alone and between quotes
           "\u202e", "\u202c", "\u2066", "\u2069", "\u200b", "\ufeff", "\u00a0", "\x7f",
           '"\u202e"\u202c"', '"\u200b"\u200b"', '"\u2066""', '""\ufeff"', '"\x7f"\x7f"\x7f"']
FWS = ["base", "pydantic", "attrs", "dataclasses", "sqlmodel"]


def hostile(rng, n=None):
    return "".join(rng.choice(HOSTILE) for _ in range(n or rng.randint(1, 6)))


def make_preamble(rng, nonce):
    """a valid Python snippet (no import / class statements) carrying the nonce and hostile characters"""
    kind = rng.choice(["comment", "assign", "multi", "tq", "func", "rawstr", "ws", "empty", "none", "comment_ws", "tq_blank", "indented", "rawsep", "decorated"])
    if kind == "none":
        return None, kind
    if kind == "empty":
        return "", kind
    if kind == "ws":
        return rng.choice([" ", "\n", "\t \n", "   \n\n  "]), kind
    h = hostile(rng).replace("\r", "").replace("\x0c", "")
    if kind == "rawsep":
        # characters that str.splitlines() treats as line boundaries but the Python tokenizer does not, raw inside literals / comments
        seps = "".join(rng.sample(["\u2028", "\u2029", "\x85", "\x0b", "\x0c", "\x1c", "\x1d", "\x1e"], rng.randint(1, 3)))
        form = rng.choice(["single", "triple", "comment"])
        if form == "single":
            return f'{nonce} = "a{seps}b"', kind
        if form == "triple":
            return f'{nonce} = """x{seps}\ny{seps}"""', kind
        return f"# {nonce} c{seps.replace(chr(0x0c), '')}d", kind
    if kind == "decorated":
        # the first character of the argument is one that command-line conventions give a meaning to ('@' response files)
        return rng.choice([f"@(lambda f: f)\ndef helper_{nonce[-4:]}():\n    # {nonce}\n    return 1",
                           f"@staticmethod\ndef helper_{nonce[-4:]}():\n    return {nonce!r}"]), kind
    if kind == "tq_blank":
        # interior whitespace-only lines (inside a literal and between statements) and leading indentation inside the literal
        return f'{nonce} = """first\n   \n\tsecond\n    indented\n\t\n"""\n  \nY_{nonce[-4:]} = 1', kind
    if kind == "indented":
        return f"if True:\n    {nonce} = 1\n    \n    Z_{nonce[-4:]} = 2", kind
    if kind == "comment":
        return f"# {nonce} " + h.replace("\n", " "), kind
    if kind == "comment_ws":
        return f"\n\n  \n# {nonce} " + h.replace("\n", " ") + "\n\n", kind
    if kind == "assign":
        return f"{nonce} = {h!r}", kind
    if kind == "multi":
        return f"{nonce} = 1\nX_{nonce[-4:]} = [\n    {h!r},\n    2,\n]\n# end {h.splitlines()[0] if h.splitlines() else ''}", kind
    if kind == "tq":
        body = h.replace("\\", "\\\\").replace('"""', '\\"\\"\\"')
        if body.endswith('"'):
            body += " "
        return f'{nonce} = """{body}"""', kind
    if kind == "rawstr":
        body = re.sub(r'"+', "'", h).rstrip("\\")
        return f'{nonce} = r"""{body} """', kind
    return f"def helper_{nonce[-4:]}():\n    # {nonce}\n    return {h!r}", kind


def gen_case(rng, i):
    nonce = "NONCE_" + digest([i, rng.random()])[:10]
    pre, kind = make_preamble(rng, nonce)
    fname = "in.json"
    if rng.random() < 0.4:
        fname = hostile(rng, rng.randint(1, 4)).replace("/", "_").replace("\x00", "").replace("\n", " ").replace("\r", "").replace("\x0c", "") or "in"
        fname = fname.strip() or "in"
        if fname.startswith("-"):
            fname = "f" + fname
        if fname in (".", "..") or "*" in fname or "?" in fname:
            fname = "in"
        fname = fname + ".json"
    if rng.random() < 0.08 and not fname.startswith("@"):
        fname = "@" + fname
    samples = rng.choice([[{"a": 1}], [{"a": 1, "b": {"c": "x"}}], [{"a": [1], "b": "1", "d": None}, {"a": [], "b": "2"}], [{"s": "text", "t": "2018-01-02"}]])
    o = {"framework": rng.choice(FWS), "structure": rng.choice([None, "nested"]), "dkr": None, "extra": []}
    if rng.random() < 0.3:
        o["dkr"] = [rng.choice([r'["\']+', r'\\d+', r'a"""b', r"x|'''", r'\w+\\'])]
    if rng.random() < 0.3:
        o["extra"] = ["--dkf", hostile(rng, 2).replace("\x00", "") or "x"]
        if o["extra"][1].startswith("-"):
            o["extra"][1] = "f" + o["extra"][1]
    case = {"i": i, "nonce": nonce, "preamble": pre, "pkind": kind, "fname": fname, "samples": samples, "o": o}
    # the value as an argument of its own ('--preamble', VALUE) instead of '--preamble=VALUE': its first character is then the first
    # character of an argv element (not possible for values starting with '-', which argparse would read as an option)
    case["split_arg"] = bool(pre) and not pre.startswith("-") and (kind == "decorated" or rng.random() < 0.3)
    if i % 5 == 3:
        other = "EARLIER_" + digest([i, "other"])[:10]
        case["reuse_after"] = {"fw": rng.choice(FWS), "preamble": rng.choice([f"# {other}", f"{other} = 1", f'{other} = """x"""\nY = 2']), "nonce": other}
    return case


def argv_of(case, with_preamble=True):
    o = case["o"]
    argv = ["-m", "Model", case["fname"], "-f", o["framework"]]
    if o["structure"]:
        argv += ["-s", o["structure"]]
    if o["dkr"]:
        argv += ["--dkr"] + o["dkr"]
    argv += o["extra"]
    if with_preamble and case["preamble"] is not None:
        argv += ["--preamble", case["preamble"]] if case.get("split_arg") else [f"--preamble={case['preamble']}"]
    return argv


def mask(s):
    s = re.sub(r"(generated by json2python-models v\S+ at )[^\n]*", r"\1<t>", s)
    return s


REUSE = """
import json, sys
from json_to_models.cli import Cli
first, second = json.loads(sys.argv[1])
cli = Cli()
cli.parse_args(first)
cli.run()
cli.parse_args(second)
sys.argv = ["json2models"] + second
sys.stdout.buffer.write((cli.run() + "\\n").encode("utf-8"))
"""


def run_one(case, tmp):
    d = os.path.join(tmp, str(case["i"]))
    os.makedirs(d)
    try:
        with open(os.path.join(d, case["fname"]), "w") as f:
            json.dump(case["samples"], f)
    except OSError:
        case["fname"] = "in.json"
        with open(os.path.join(d, case["fname"]), "w") as f:
            json.dump(case["samples"], f)
    argv = argv_of(case)
    env = child_env({"PYTHONIOENCODING": "utf-8"})
    if case.get("reuse_after"):
        # one Cli object configured twice in one process: first with another preamble, then with this case's command line
        first = ["-m", "Model", case["fname"], "-f", case["reuse_after"]["fw"], f"--preamble={case['reuse_after']['preamble']}"]
        r = run_bounded([PY, "-c", REUSE, json.dumps([first, argv])], timeout=300, capture_output=True, cwd=d, env=env)
    else:
        r = run_bounded([PY, "-m", "json_to_models"] + argv, timeout=300, capture_output=True, cwd=d, env=env)
    r0 = None
    if case["pkind"] in ("ws", "empty") or (case.get("reuse_after") and case["pkind"] == "none"):
        r0 = run_bounded([PY, "-m", "json_to_models"] + argv_of(case, with_preamble=False), timeout=300, capture_output=True, cwd=d, env=env)
    if r.returncode != 0 and not getattr(r, "timed_out", False) and not case.get("reuse_after"):
        # the command failed: is it the hostile text that made it fail?  Twin command lines that differ from this one only in the
        # preamble (a plain comment, passed as --preamble=...) and, for a file name starting with '@', in spelling the same file './@...'
        twin = dict(case, preamble=f"# {case['nonce']}", split_arg=False)
        rt = run_bounded([PY, "-m", "json_to_models"] + argv_of(twin), timeout=300, capture_output=True, cwd=d, env=env)
        what = "preamble"
        if rt.returncode != 0 and case["fname"].startswith("@") and not getattr(rt, "timed_out", False):
            twin["fname"] = "./" + case["fname"]
            rt = run_bounded([PY, "-m", "json_to_models"] + argv_of(twin), timeout=300, capture_output=True, cwd=d, env=env)
            what = "preamble and the spelling of the file name ('./@...' instead of '@...')"
        if rt.returncode == 0 and not getattr(rt, "timed_out", False):
            r.twin_ok = what
    return argv, r, r0


def judge(case, argv, r, r0):
    wit = []

    def W(mech, msg):
        wit.append({"property": PROP, "mechanism": mech, "msg": f"argv {argv!r}: {msg}"[:800]})

    if getattr(r, "timed_out", False) or (r0 is not None and getattr(r0, "timed_out", False)):
        return None, "case timeout"
    if r.returncode != 0:
        err = r.stderr.decode("utf-8", "replace").strip().split("\n")[-1]
        if getattr(r, "twin_ok", None):
            W("cli-fails-on-hostile-argv", f"exit status {r.returncode} ({err[:200]}), no module; the command line differing only in the {r.twin_ok} succeeds")
            return wit, None
        return None, f"CLI failed: {err[:200]}"
    out = r.stdout.decode("utf-8", "replace")
    try:
        tree = ast.parse(out)
    except SyntaxError as e:
        W("stdout-does-not-parse", f"{e.msg} at line {e.lineno}: {(e.text or '')[:120]!r}")
        return wit, None
    first = tree.body[0] if tree.body else None
    if not (isinstance(first, ast.Expr) and isinstance(first.value, ast.Constant) and isinstance(first.value.value, str)):
        W("first-statement-not-header", f"first statement is {ast.dump(first)[:150] if first else None}")
        return wit, None
    lines = re.split(r"\r\n|\r|\n", out)  # the tokenizer's notion of a line
    rest_nodes = tree.body[1:]
    pre = case["preamble"]
    stripped = (pre or "").strip()
    body_text = "\n".join(lines[first.end_lineno:])
    if case.get("reuse_after") and case["reuse_after"]["nonce"] in body_text:
        W("preamble-of-an-earlier-configuration-emitted", f"the module carries {case['reuse_after']['nonce']}, the preamble of the Cli object's previous configuration")
    if stripped:
        n = body_text.count(case["nonce"])
        if n != 1:
            W("preamble-count", f"the preamble nonce occurs {n} times after the header (expected exactly once)")
        imports = [nd for nd in rest_nodes if isinstance(nd, (ast.Import, ast.ImportFrom))]
        classes = [nd for nd in rest_nodes if isinstance(nd, ast.ClassDef)]
        if not classes:
            W("no-class-emitted", "no class in the module")
            return wit, None
        start = max([first.end_lineno] + [nd.end_lineno for nd in imports])
        c0 = classes[0]
        cstart = min([c0.lineno] + [dec.lineno for dec in c0.decorator_list])
        # a '# Warn!...' comment line belongs to the sqlmodel class body text
        seg_lines = lines[start:cstart - 1]
        seg = "\n".join(seg_lines)
        core = seg.strip("\n")
        if core.startswith(stripped):
            # whatever follows the preamble up to the class may only be blank lines and comment lines of the generator itself
            # (e.g. the sqlmodel warning), none of them carrying the nonce
            tail = core[len(stripped):]
            if all((not ln.strip()) or (ln.lstrip().startswith("#") and case["nonce"] not in ln) for ln in tail.split("\n")) and \
                    (tail == "" or tail.startswith("\n")):
                seg = stripped
        if any(nd.lineno < start for nd in rest_nodes if not isinstance(nd, (ast.Import, ast.ImportFrom))):
            W("preamble-before-imports", "a non-import statement precedes the last import")
        if seg.strip("\n") != stripped:
            W("preamble-not-verbatim-between-imports-and-classes",
              f"text between the imports and the first class is {seg.strip(chr(10))[:200]!r}, preamble (stripped) is {stripped[:200]!r}")
        elif seg != ("\n\n" if imports else "") + stripped + "\n\n" and seg.strip("\n") == stripped:
            pass  # delimiter blank lines are not part of the statement
    else:
        if r0 is not None:
            if r0.returncode != 0:
                return None, "reference run without --preamble failed"
            out0 = r0.stdout.decode("utf-8", "replace")
            t0 = ast.parse(out0)
            body_a = "\n".join(lines[first.end_lineno:])
            body_b = "\n".join(re.split(r"\r\n|\r|\n", out0)[t0.body[0].end_lineno:])
            if body_a != body_b:
                W("blank-preamble-changes-output", f"whitespace-only preamble {pre!r} changes the module text")
    return wit, None


def main():
    cases = [gen_case(rng_for(PROP, seed(), i), i) for i in range(N[tier()])]
    v = Verdict(PROP, "exploration",
                "real CLI subprocesses whose argv carries hostile text (quote runs of 1-5, ''' , backslashes, trailing backslash, \\\"\"\", r\"\"\", "
                "newline, tab, CR, form feed, non-ASCII incl. non-BMP, format-like tokens) in --preamble, in the input file name, in --dkr "
                "patterns and --dkf names; preambles are valid Python snippets (comment, assignment, multi-line, triple-quoted string, raw "
                "string, def) carrying a per-case nonce, or empty / whitespace-only / absent; x 5 frameworks x flat/nested. Oracle on "
                "ast.parse(stdout): first statement is the header string; the text between the last import and the first class equals the "
                "stripped preamble and the nonce occurs exactly once after the header; blank preamble == no preamble. non-trivial = argv "
                "containing a quote or a backslash. 1 case in 5 runs its command line on a Cli object that was configured and run before with "
                "another preamble (same process)",
                ["model names are plain identifiers; preambles contain no import/class statements so they can be located unambiguously"])
    tmp = tempfile.mkdtemp(prefix="j2mverif_c19_")
    try:
        with ThreadPoolExecutor(max_workers=NPROC) as ex:
            done = list(ex.map(lambda c: (c, run_one(c, tmp)), cases))
        for c, (argv, r, r0) in done:
            wit, why = judge(c, argv, r, r0)
            joined = " ".join(argv)
            cnt = {"cli_runs": 1 + (r0 is not None), "cli_object_reconfigured": int(bool(c.get("reuse_after"))), "pre_" + c["pkind"]: 1, "hostile_filename": int(c["fname"] != "in.json"),
                   "argv_with_triple_quote": int('"""' in joined), "argv_with_backslash": int("\\" in joined), "argv_with_newline": int("\n" in joined)}
            if wit is None:
                v.add({"argv": argv}, {"status": "inconclusive", "why": why, "witnesses": [], "counters": cnt})
                continue
            v.add({"argv": argv, "preamble": c["preamble"], "fname": c["fname"]},
                  {"status": "violated" if wit else "held", "witnesses": wit, "counters": cnt, "digest": digest(argv),
                   "nontrivial": any(ch in joined for ch in "\"'\\")}, sample_view={"argv": argv})
    finally:
        shutil.rmtree(tmp, ignore_errors=True)
    return v.finish(floor_nontrivial=50, monitors_required=("cli_runs", "argv_with_triple_quote", "argv_with_backslash", "argv_with_newline",
                                                            "hostile_filename", "pre_ws", "pre_tq", "cli_object_reconfigured"), max_inconclusive_frac=0.15)
