"""C03 - emitted module is loadable Python with every reference resolvable (load monitor + ast census)."""
import re

from . import pipeline_common as pc
from .. import gen
from ..common import Verdict, rng_for, run_shards, seed, tier

PROP = "C03"
N = {"quick": 12000, "thorough": 200000}


def gen_cases_for(seed_, n):
    cases = []
    for i in range(n):
        rng = rng_for(PROP, seed_, i)
        if i % 2:
            jc = gen.keys_case(rng)
        else:
            jc = gen.json_case(rng)
        sp = pc.special_case(rng, i)
        if sp is not None:
            jc = sp
        opts = gen.options(rng, jc["samples"], allow_dict_opts=(i % 2 == 0))
        if i % 2:
            opts["merge"] = rng.choice([[["exact"]], opts["merge"]])
        if sp is not None:
            pc.adjust_opts(jc, opts)
        cases.append({"i": i, "profile": jc["profile"], "models": [["Root", jc["samples"]]] + pc.maybe_second_root(rng, jc["samples"], jc["profile"], p=0.2),
                      "opts": opts})
    # documents at and beyond what CPython can express: 200 nested brackets in an annotation, 100 indentation levels (nested layout)
    for j, (kind, d) in enumerate([("list", 199), ("list", 200), ("list", 205), ("list", 260), ("chain", 97), ("chain", 99), ("chain", 101), ("chain", 120)]):
        rng = rng_for(PROP, "limits", seed_, j)
        if kind == "list":
            v = 1
            for _ in range(d):
                v = [v]
            smp = {"deep": v, "k": 1}
        else:
            v = {"leaf": 1}
            for lvl in reversed(range(d)):
                v = {f"k{lvl}": v, "n": lvl}
            smp = v
        opts = gen.options(rng, [smp], allow_dict_opts=False)
        opts["merge"] = []
        if kind == "chain":
            opts["flat"] = j % 2 == 1
        cases.append({"i": n + j, "profile": "limits", "models": [["Root", [smp]]], "opts": opts})
    return cases


# naming defects that are the root cause of whatever load failure follows in the same module
ROOT_CAUSES = ("name-shadows-import", "class-field-name-clash", "duplicate-field-name:folded-keys", "duplicate-class-name:sanitised")
PYD_RESERVED = re.compile(r'Field name "(\w+)" shadows a BaseModel attribute')


def nesting(samples):
    """(deepest list-in-list nesting, deepest object-in-object nesting) of the sample documents, without recursion"""
    deep_l = deep_o = 0
    stack = [(s, 0, 0) for s in samples]
    while stack:
        v, nl, no = stack.pop()
        if isinstance(v, list):
            deep_l = max(deep_l, nl + 1)
            stack.extend((x, nl + 1, no) for x in v)
        elif isinstance(v, dict):
            deep_o = max(deep_o, no + 1)
            stack.extend((x, 0, no + 1) for x in v.values())
    return deep_l, deep_o


def refine(w, case):
    """sub-classify load failures whose cause is a name reserved by the target framework, or a nesting limit of CPython itself"""
    m = w["mechanism"]
    msg = w.get("exc_msg", "") or w["msg"]
    if m == "load-failure:compile:SyntaxError" and "too many nested parentheses" in msg:
        if nesting([x for _n, ss in case["models"] for x in ss])[0] >= 195:
            w["mechanism"] = "python-limit:annotation-nested-over-200-brackets"
        return w
    if m == "load-failure:compile:IndentationError" and "too many levels of indentation" in msg and not case["opts"]["flat"]:
        if nesting([x for _n, ss in case["models"] for x in ss])[1] >= 98:
            w["mechanism"] = "python-limit:classes-nested-over-99-levels"
        return w
    if m.startswith("load-failure:exec:NameError") and PYD_RESERVED.search(msg):
        w["mechanism"] = "name-reserved-by-framework:pydantic-basemodel-attribute"
        w["name"] = PYD_RESERVED.search(msg).group(1)
    elif m == "load-failure:exec:SyntaxError" and "duplicate argument 'self'" in msg and case["opts"]["framework"] == "attrs":
        w["mechanism"] = "name-reserved-by-framework:attrs-self"
    return w


def run_case(case):
    from .. import analysis, driver
    models = [(n, s) for n, s in case["models"]]
    opts = case["opts"]
    a = analysis.Analysis(models, opts)
    counters = {"fw_" + opts["framework"]: 1, "layout_" + ("flat" if opts["flat"] else "nested"): 1}
    try:
        if not a.generate():
            return {"status": "outside", "why": "generation raised (reported by C01)", "witnesses": [], "counters": counters}
        tree = driver.is_tree(a.run.registry)
        loaded = a.load()
        try:
            a.c03()
        except (SyntaxError, ValueError):
            pass  # text that does not parse / is not encodable source: reported by load()
        if not opts["flat"] and not tree:
            counters["outside_claim_nested_non_tree"] = 1
            return {"status": "outside", "why": "nested layout on a non-tree model graph", "witnesses": [], "counters": counters}
        mine = [refine(w, case) for w in a.w if w["property"] == PROP]
        if any(w["mechanism"] in ROOT_CAUSES for w in mine):
            # a class/field that rebinds an imported name (List, Field, attr, ...) is the root cause of whatever
            # load failure follows in the same module: report the root cause only
            n0 = len(mine)
            mine = [w for w in mine if not w["mechanism"].startswith(("load-failure", "annotation-unresolvable"))]
            counters["load_failures_attributed_to_shadowing"] = n0 - len(mine)
        counters.update({k: v for k, v in a.stats.items() if isinstance(v, int)})
        counters["modules_loaded"] = int(bool(loaded))
        keys = set(gen.collect_keys([s for _, ss in models for s in ss]))
        return {"status": "violated" if mine else "held", "witnesses": mine[:6], "counters": counters,
                "nontrivial": a.stats.get("classes", 0) >= 2 and a.stats.get("forward_refs", 0) >= 1}
    finally:
        a.close()


def main():
    cases = gen_cases_for(seed(), N[tier()])
    v = Verdict(PROP, "exploration",
                "half of the cases: general schema-derived inputs; half: key-style inputs (snake, camel, kebab, Pascal, digits, "
                "caps, keywords, builtins, typing/import names, framework-reserved names, punctuation, non-ASCII cased scripts, "
                "plural/singular pairs; never starting with digit/underscore) as scalar-, object- and list-valued keys; x 5 "
                "frameworks x flat/nested x converters/meta/unicode/literal options. Each emitted text is compiled, executed "
                "with only its own imports, every annotation evaluated in its scope, and an ast census taken. nested layout "
                "judged only on tree-shaped graphs. Plus 8 documents at / beyond CPython's own limits (199-260 nested lists, 97-120 nested objects). non-trivial = >=2 classes and >=1 quoted forward reference",
                ["sqlmodel is a stub package (/verif/stubs/sqlmodel)"])
    results, infra = run_shards(PROP, cases, timeout_per_case=8)
    v.infra = infra
    for c, r in zip(cases, results):
        v.add(c, r, sample_view={"samples": c["models"][0][1][:2], "opts": c["opts"]})
    return v.finish(floor_nontrivial=50, monitors_required=("modules_loaded", "annotations_evaluated", "forward_refs"))
