"""C13 - dict-field options turn objects into mappings, and only those.
An independent dict-vs-model decision is made per object occurrence and compared, per position of the loaded class
graph, with the emitted annotations.  Library path (patterns as given, anchored) and real CLI subprocesses."""
import json
import os
import re
import shutil
import subprocess
import tempfile
import typing
from typing import Dict, List, Union

from .. import gen
from ..common import PY, Verdict, child_env, digest, rng_for, run_shards, seed, tier

PROP = "C13"
N = {"quick": 12000, "thorough": 150000}
PATTERNS = [r"k\d+", r"k\d", r"[a-z]+", r"k1\d*|k2\d*", r"\w+", r"[a-m]\w*", r"k\d+|name|value", r"k|k\d\d", r"K\d+", r"[a-z]{1,4}",
            r"k[0-4]\d?", r"(k)(\d+)", r"name|title", r"k\d+|", r".*", r"[^k].*", r"k(?:1|2)\d"]


def gen_cases_for(seed_, n):
    cases = []
    for i in range(n):
        rng = rng_for(PROP, seed_, i)
        jc = gen.json_case(rng, profile=rng.choice(["general", "general", "merge", "small", "tree"]))
        samples = jc["samples"]
        opts = gen.options(rng, samples, frameworks=["base", "dataclasses", "attrs", "pydantic"], allow_dict_opts=False)
        opts["merge"] = rng.choice([[["exact"]], [["percent", 0.7]], [["percent", 1.0]], [["percent", 0.5]]])
        keys = sorted(set(gen.collect_keys(samples)))
        r = rng.random()
        if r < 0.85 and keys:
            if rng.random() < 0.6:
                opts["dkf"] = rng.sample(keys, min(len(keys), rng.randint(1, 3)))
                if rng.random() < 0.2:
                    opts["dkf"].append("no_such_key")
            if rng.random() < 0.3:
                # names that are *not* keys of the data but look like one (snake_case / other case / plural of a real key):
                # only the exact key names a field
                near = set()
                for k in rng.sample(keys, min(len(keys), 4)):
                    near |= {re.sub(r"(?<=[a-z0-9])([A-Z])", r"_\1", k).replace("-", "_").replace(" ", "_").lower(), k.lower(), k.upper(),
                             k.capitalize(), k + "s", k.rstrip("s"), k.replace("_", "")}
                near -= set(keys)
                near.discard("")
                if near:
                    opts["dkf"] = list(opts.get("dkf") or []) + rng.sample(sorted(near), min(len(near), 2))
            if rng.random() < 0.7:
                pats = [rng.choice(PATTERNS) for _ in range(rng.randint(1, 2))]
                if rng.random() < 0.3:
                    ks = rng.sample(keys, min(len(keys), rng.randint(1, 3)))
                    pats.append("|".join(re.escape(k) for k in ks))
                opts["dkr"] = pats
                if rng.random() < 0.3:
                    # library only: compiled patterns carry flags; keys that match only because of the flag
                    opts["dkr_flags"] = rng.choice(["i", "x", "ix", "ia"])
                    if "i" in opts["dkr_flags"]:
                        ks = rng.sample(keys, min(len(keys), rng.randint(1, 3)))
                        opts["dkr"] = [p.upper() if p in (r"k\d+", r"k\d", r"k1\d*|k2\d*") else p for p in pats] + ["|".join(re.escape(k.swapcase()) for k in ks)]
                        opts["dkr"] = [p.replace("\\D", "\\d") for p in opts["dkr"]]
        cases.append({"i": i, "via": "library", "models": [["Root", samples]], "opts": opts})
    return cases


class DictOracle:
    """phase 1: does a routing exist under which every object occurrence is treated as the documented rule says
    (memoised search over union alternatives);  phase 2: walk the successful routings (leniently: all of them) and
    record per position which kinds of objects arrive, for the converse direction."""

    def __init__(self, opts, orc):
        self.dkf = set(opts.get("dkf") or [])
        from ..driver import re_flags
        # patterns without any layout characters, so re.X changes nothing about what they mean
        self.regex = [re.compile(p, re_flags((opts.get("dkr_flags") or "").replace("x", ""))) for p in (opts.get("dkr") or [])]
        self.orc = orc
        self.pos = {}
        self.errs = []
        self.class_objects = {}
        self.n_map = self.n_model = 0
        self.memo = {}
        self.seen = set()

    def expect_dict(self, v, key, direct):
        if not v:
            return True
        if direct and key in self.dkf:
            return True
        return any(all(r.fullmatch(k) for k in v.keys()) for r in self.regex)

    @staticmethod
    def members(T):
        return [a for a in typing.get_args(T) if a is not type(None)] if typing.get_origin(T) is Union else [T]

    # ---- phase 1
    def ok_obj(self, cls, o):
        k = (cls, id(o))
        if k in self.memo:
            return self.memo[k]
        self.memo[k] = True
        if self.orc.why_not(cls, o) is not None:
            self.memo[k] = False
            return False
        bykey, _ = self.orc.bykey(cls)
        res = all(self.ok_val(v, bykey[key].ann, key, True) for key, v in o.items() if key in bykey)
        self.memo[k] = res
        return res

    def ok_val(self, v, T, key, direct):
        if v is None or T is typing.Any:
            return True
        ms = self.members(T)
        if type(v) is list:
            lms = [M for M in ms if typing.get_origin(M) in (list, List)]
            if not lms:
                return True  # not a container position: C01's business
            return any(all(self.ok_val(e, typing.get_args(M)[0], None, False) for e in v) for M in lms)
        if type(v) is not dict:
            return True
        if self.expect_dict(v, key, direct):
            return any(typing.get_origin(M) in (dict, Dict) and self.orc.inh(v, M)
                       and all(self.ok_val(e, typing.get_args(M)[1], None, False) for e in v.values()) for M in ms)
        return any(self.orc.is_model(M) and self.ok_obj(M, v) for M in ms)

    def explain(self, v, T, key, direct, where):
        """first failing occurrence (for the witness)"""
        ms = self.members(T)
        if type(v) is list:
            for M in ms:
                if typing.get_origin(M) in (list, List):
                    for e in v:
                        if not self.ok_val(e, typing.get_args(M)[0], None, False):
                            return self.explain(e, typing.get_args(M)[0], None, False, where + "[]")
            return None
        if type(v) is not dict:
            return None
        dict_ms = [M for M in ms if typing.get_origin(M) in (dict, Dict)]
        model_ms = [M for M in ms if self.orc.is_model(M)]
        if self.expect_dict(v, key, direct):
            good = [M for M in dict_ms if self.orc.inh(v, M)]
            if not good:
                return ("mapping-expected-but-not-typed-dict", where,
                        f"object with keys {sorted(v)[:6]} must be a mapping (empty / dict-keys-fields / all keys match a regex) but {tstr(T)} "
                        + ("has no Dict member" if not dict_ms else "has a Dict member that rejects its values"))
            for M in good:
                for k2, e in v.items():
                    if not self.ok_val(e, typing.get_args(M)[1], None, False):
                        return self.explain(e, typing.get_args(M)[1], None, False, where + "{}")
            return None
        good = [M for M in model_ms if self.orc.why_not(M, v) is None]
        if not good:
            return ("model-expected-but-not-typed-model", where,
                    f"object with keys {sorted(v)[:6]} matches no dict option but {tstr(T)} "
                    + ("has no model member" if not model_ms else "has no model member that accepts it"))
        bykey, _ = self.orc.bykey(good[0])
        for k2, e in v.items():
            if k2 in bykey and not self.ok_val(e, bykey[k2].ann, k2, True):
                return self.explain(e, bykey[k2].ann, k2, True, f"{good[0].__name__}.{k2}")
        return None

    # ---- phase 2
    def walk_obj(self, cls, o):
        if (cls, id(o)) in self.seen:
            return
        self.seen.add((cls, id(o)))
        self.class_objects[cls] = self.class_objects.get(cls, 0) + 1
        bykey, _ = self.orc.bykey(cls)
        for key, v in o.items():
            if key in bykey:
                self.walk_val(v, bykey[key].ann, key, True, (cls.__name__, key, ""))

    def walk_val(self, v, T, key, direct, where):
        if v is None or T is typing.Any:
            return
        ms = self.members(T)
        if type(v) is list:
            for M in ms:
                if typing.get_origin(M) in (list, List) and all(self.ok_val(e, typing.get_args(M)[0], None, False) for e in v):
                    for e in v:
                        self.walk_val(e, typing.get_args(M)[0], None, False, (where[0], where[1], where[2] + "[]"))
            return
        if type(v) is not dict:
            return
        rec = self.pos.setdefault(where, {"T": T, "map": 0, "model": 0})
        if self.expect_dict(v, key, direct):
            self.n_map += 1
            rec["map"] += 1
            for M in ms:
                if typing.get_origin(M) in (dict, Dict) and self.orc.inh(v, M):
                    for e in v.values():
                        self.walk_val(e, typing.get_args(M)[1], None, False, (where[0], where[1], where[2] + "{}"))
        else:
            self.n_model += 1
            rec["model"] += 1
            for M in ms:
                if self.orc.is_model(M) and self.ok_obj(M, v):
                    self.walk_obj(M, v)

    def run(self, roots):
        for cls, samples in roots:
            for i, s in enumerate(samples):
                if not self.ok_obj(cls, s):
                    bykey, _ = self.orc.bykey(cls)
                    for key, v in s.items():
                        if key in bykey and not self.ok_val(v, bykey[key].ann, key, True):
                            e = self.explain(v, bykey[key].ann, key, True, f"{cls.__name__}.{key}")
                            if e:
                                self.errs.append(e)
                            break
        if self.errs:
            return
        for cls, samples in roots:
            for s in samples:
                self.walk_obj(cls, s)
        for where, rec in self.pos.items():
            T = rec["T"]
            ms = self.members(T)
            has_dict = any(typing.get_origin(M) in (dict, Dict) for M in ms)
            has_model = any(self.orc.is_model(M) for M in ms)
            w = ".".join(x for x in where if x)
            if has_dict and not rec["map"]:
                self.errs.append(("dict-member-without-mapping-object", w, f"{tstr(T)}: no object arriving here is a mapping by the documented rule"))
            if has_model and not rec["model"]:
                self.errs.append(("model-member-without-model-object", w, f"{tstr(T)}: every object arriving here is a mapping by the documented rule"))
        for cls in self.orc.by_cls:
            if not self.class_objects.get(cls):
                self.errs.append(("class-for-mapping-object", cls.__name__, f"class {cls.__name__} is emitted but no model-expected object reaches it"))


def tstr(T):
    from ..oracle import tstr as t
    return t(T)


def judge(models, opts, code_override=None):
    """returns (status, witnesses, counters)"""
    from .. import analysis, oracle
    a = analysis.Analysis(models, opts)
    try:
        if code_override is None:
            if not a.generate():
                return "outside", [], {}, "generation raised (C01 reports it)"
        else:
            if not a.generate():
                return "outside", [], {}, "generation raised (C01 reports it)"
            a.code = code_override
        if not a.load() or not a.class_maps():
            return "outside", [], {}, "module does not load (C03 reports it)"
        a.c01_c02(want_c02=False)
        if any(w["property"] == "C01" for w in a.w) or "C01" in a.blocked:
            return "outside", [], {"blocked_by_c01": 1}, "C01 acceptance failed on this execution (reported there)"
        orc = a.orc
        do = DictOracle(opts, orc)
        roots = []
        for (name, samples), ptr in zip(models, a.run.root_ptrs):
            roots.append((a.cls_by_index[ptr.type.index], samples))  # top-level samples are always models
        do.run(roots)
        wit = [{"property": PROP, "mechanism": k, "msg": f"{w}: {m}"[:600]} for k, w, m in do.errs[:6]]
        return ("violated" if wit else "held"), wit, {"mapping_objects": do.n_map, "model_objects": do.n_model, "positions": len(do.pos)}, None
    finally:
        a.close()


def judge_module(code, fw, samples, opts):
    """the same oracle on a module text alone (CLI output): no registry is consulted; original keys come from the
    module's own alias / metadata entries"""
    from .. import driver, mme, oracle
    try:
        mod = mme.load(code)
    except mme.LoadError as e:
        return "outside", [], {}, f"CLI output does not load ({e}); C03/C19 report it"
    try:
        tab = mme.table(mod, fw)
        roots = [i for i in tab.values() if i.name == "Root"]
        if len(roots) != 1:
            return "outside", [], {}, "no unique Root class in CLI output"
        orc = oracle.Oracle(tab, oracle.FirstMatch([driver.STR_CLASSES[n] for n in opts["registry"]]), fw, {})
        errs = orc.acceptance([(roots[0].cls, samples)])
        if errs:
            return "outside", [], {"blocked_by_c01": 1}, "C01 acceptance failed on the CLI output (reported there)"
        do = DictOracle(opts, orc)
        do.run([(roots[0].cls, samples)])
        wit = [{"property": PROP, "mechanism": k, "msg": f"{w}: {m}"[:600]} for k, w, m in do.errs[:6]]
        return ("violated" if wit else "held"), wit, {"mapping_objects": do.n_map, "model_objects": do.n_model, "positions": len(do.pos)}, None
    finally:
        mme.unload(mod)


def run_case(case):
    models = [(n, s) for n, s in case["models"]]
    opts = case["opts"]
    st, wit, cnt, why = judge(models, opts)
    samples = models[0][1]
    r = {"status": st, "witnesses": wit, "counters": cnt, "digest": digest(case),
         "nontrivial": cnt.get("mapping_objects", 0) >= 1 and cnt.get("model_objects", 0) > len(samples)}
    if why:
        r["why"] = why
    return r


ANCHOR_SENSITIVE = [
    (r"a|bc", [{"ax": 1, "bc": 2}, {"a": 1, "bc": 2}, {"xa": 1, "bc": 1}, {"a": 1, "xbc": 2}]),
    (r"k\d", [{"k1x": 1, "k2y": 2}, {"k1": 1, "k2": 2}, {"xk1": 1}, {"k12": 1}]),
    (r"k\d+|name", [{"namex": 1, "k1": 2}, {"name": 1, "k1": 2}, {"k1": 1, "xname": 2}]),
    (r"\d+", [{"1a": 1, "2b": 2}, {"1": 1, "22": 2}, {"a1": 1}]),
    (r"[a-c]+|z", [{"abz": 1, "z": 2}, {"ab": 1, "z": 2}, {"zz": 1, "ab": 1}]),
    (r"id_\w|x", [{"id_ab": 1, "x": 2}, {"id_a": 1, "x": 2}, {"x1": 1, "id_a": 1}]),
]


def cli_cases(v, seed_, n):
    """the same oracle on what the real CLI prints (patterns are anchored by the CLI: key matches iff re.fullmatch)"""
    from concurrent.futures import ThreadPoolExecutor
    tmp = tempfile.mkdtemp(prefix="j2mverif_c13_")
    jobs = []
    try:
        for i in range(n):
            rng = rng_for(PROP, "cli", seed_, i)
            fw = rng.choice(["attrs", "dataclasses", "pydantic"])
            if i % 2:
                pat, objs = rng.choice(ANCHOR_SENSITIVE)
                pats = [pat]
                picked = [objs[0]] + [rng.choice(objs) for _ in range(rng.randint(0, 2))]
                rng.shuffle(picked)
                samples = [{"top": "s", f"holder{j}": o} for j, o in enumerate(picked)]
                samples = [dict(p for smp in samples for p in smp.items())]
                if rng.random() < 0.5:
                    samples.append({"top": "t", "lst": [rng.choice(objs), rng.choice(objs)]})
                dkf = []
            else:
                jc = gen.json_case(rng, profile=rng.choice(["general", "small", "merge"]))
                samples = jc["samples"]
                keys = sorted(set(gen.collect_keys(samples)))
                pats = [rng.choice(PATTERNS + [r"a|bc", r"k1|k22"]) for _ in range(rng.randint(1, 2))]
                pats = [p for p in pats if p and not p.startswith("-")]
                dkf = rng.sample(keys, min(len(keys), rng.randint(0, 2)))
            d = os.path.join(tmp, str(i))
            os.makedirs(d)
            with open(os.path.join(d, "in.json"), "w") as f:
                json.dump(samples, f)
            argv = ["-m", "Root", "in.json", "-f", fw, "--merge", "exact", "--max-strings-literals", "10"]
            if fw in ("attrs", "dataclasses"):
                argv += ["--code-generator-kwargs", "meta=true"]
            if pats:
                argv += ["--dkr"] + pats
            if dkf:
                argv += ["--dkf"] + dkf
            jobs.append((i, d, argv, samples, fw, pats, dkf))

        def run(job):
            i, d, argv, samples, fw, pats, dkf = job
            if i % 4 >= 2:
                # the same command line on a Cli object that was configured and run before with other (wider) dict-keys options
                from .. import clireuse
                allkeys = sorted(set(gen.collect_keys(samples)))
                first = ["-m", "Root", "in.json", "-f", fw, "--dkf"] + (allkeys[:6] or ["x"]) + ["--dkr", r".*", r"k\d+"]
                return job, clireuse.run(first, argv, d, again=(i % 8 >= 6))
            from ..common import run_bounded
            return job, run_bounded([PY, "-m", "json_to_models"] + argv, timeout=120, capture_output=True, text=True, cwd=d, env=child_env())

        with ThreadPoolExecutor(max_workers=12) as ex:
            done = list(ex.map(run, jobs))
        for (i, d, argv, samples, fw, pats, dkf), r in done:
            case = {"via": "cli", "argv": argv, "models": [["Root", samples]]}
            if getattr(r, "timed_out", False):
                v.add(case, {"status": "inconclusive", "why": "case timeout", "witnesses": []})
                continue
            if r.returncode != 0:
                v.add(case, {"status": "outside", "why": "CLI failed (C16/C17 report it)", "witnesses": []})
                continue
            opts = {"framework": fw, "flat": True, "merge": [["exact"]], "max_literals": 10, "convert_unicode": True,
                    "registry": ["IntString", "FloatString", "BooleanString"], "dkf": dkf, "dkr": pats, "post_init_converters": False, "meta": False}
            st, wit, cnt, why = judge_module(r.stdout, fw, samples, opts)
            cnt = dict(cnt, cli_runs=1, cli_anchor_sensitive=i % 2, cli_judged=int(st in ("held", "violated")), cli_object_reconfigured=int(i % 4 >= 2))
            v.add(case, {"status": st, "witnesses": wit, "counters": cnt, "why": why, "digest": digest(case),
                         "nontrivial": cnt.get("mapping_objects", 0) >= 1 and cnt.get("model_objects", 0) > len(samples)},
                  sample_view={"argv": argv, "samples": samples[:2]})
    finally:
        shutil.rmtree(tmp, ignore_errors=True)


def main():
    cases = gen_cases_for(seed(), N[tier()])
    v = Verdict(PROP, "exploration",
                "schema-derived inputs (incl. id-keyed objects k<digits>, empty objects, nested objects inside mappings) x dict-keys-fields "
                "lists drawn from the keys that occur (plus a missing one) x regex lists from a pool with alternations, partial matches, "
                "classes and patterns built from occurring keys; library path with anchored patterns and real CLI subprocesses with bare "
                "patterns (fullmatch semantics). Per object occurrence the documented rule decides mapping vs model; per position of the "
                "loaded class graph: Dict member <=> some mapping-expected object, model member <=> some model-expected object, values "
                "inhabit the Dict value type, no class without a model-expected object. Judged only where C01 acceptance passed. "
                "non-trivial = >=1 mapping-expected and >=1 nested model-expected object",
                ["merge policies exact/percent only (orphan classes cannot arise there)"])
    results, infra = run_shards(PROP, cases, timeout_per_case=8)
    v.infra = infra
    for c, r in zip(cases, results):
        v.add(c, r, sample_view={"samples": c["models"][0][1][:2], "dkf": c["opts"]["dkf"], "dkr": c["opts"]["dkr"]})
    cli_cases(v, seed(), 120 if tier() == "quick" else 1500)
    return v.finish(floor_nontrivial=100, monitors_required=("mapping_objects", "model_objects", "positions", "cli_runs", "cli_anchor_sensitive", "cli_judged", "cli_object_reconfigured"))
