"""C06 - output is a deterministic function of inputs and options.
The same batch of generations is executed in fresh processes under different PYTHONHASHSEED values and with a
perturbed heap layout (so id()-based hashes differ); outputs are compared byte for byte."""
import difflib
import hashlib
import json
import os
import random
import re
import shutil
import subprocess
import sys
import tempfile
import time

from .. import gen
from ..common import PY, Verdict, child_env, digest, rng_for, seed, tier, NPROC

PROP = "C06"
N = {"quick": 2500, "thorough": 20000}
ENVS = {"quick": ["0", "1", "2", "3", "17", "4242", None],
        "thorough": ["0", "1", "2", "3", "17", "4242", "99", "12345", "777", "31337", None, None]}


def gen_cases(seed_, n):
    cases = []
    for i in range(n):
        rng = rng_for(PROP, seed_, i)
        jc = gen.json_case(rng, profile=rng.choice(["merge", "merge", "merge", "general", "literals", "small"]))
        opts = gen.options(rng, jc["samples"])
        if rng.random() < 0.6:
            opts["merge"] = [["percent", rng.choice([0.3, 0.5, 0.7])]] if rng.random() < 0.7 else [["number", rng.choice([1, 2])]]
        models = [["Root", jc["samples"]]]
        if i % 8 == 3:
            # several dissimilar parents, each holding sub-documents of the same few shapes: after merging, two or more distinct
            # models are referenced by the same set of parents (layout bookkeeping keyed by that set)
            nshapes = rng.randint(2, 8)
            shapes = [{f"s{j}f{x}": rng.choice([1, "t", 2.5, True]) for x in range(rng.randint(2, 4))} for j in range(nshapes)]
            sample = {}
            for pi in range(rng.randint(2, 4)):
                parent = {f"p{pi}own{x}": x for x in range(rng.randint(1, 3))}
                for j in rng.sample(range(nshapes), rng.randint(2, nshapes)):
                    parent[f"child{j}"] = dict(shapes[j]) if rng.random() < 0.7 else [dict(shapes[j])]
                sample[f"parent{pi}"] = parent
            models = [["Root", [sample]]]
            opts["merge"] = rng.choice([[["exact"]], [["percent", 0.7], ["number", 10]], [["percent", 1.0]]])
        if i % 8 == 5:
            # a recursive root (replies -> the root's own shape) and a small model referenced from several fields of the root *and* from
            # several fields of one of its children: a shared model with two parents and no parent-less ancestor; which parent hosts it
            # must not depend on set iteration order / object addresses
            user = {f"u{x}": rng.choice([1, "x", 2.5]) for x in range(rng.randint(2, 3))}
            refs = rng.sample(["author", "editor", "approver", "assignee", "owner", "reviewer"], rng.randint(2, 4))
            refs2 = rng.sample(["created_by", "updated_by", "deleted_by", "locked_by", "seen_by"], rng.randint(2, 4))

            def node(depth):
                nd = {"id": 1, "text": "t", **{r: dict(user) for r in refs},
                      "audit": {**{r: dict(user) for r in refs2}, "rev": 3, "ts": 1.5}, "replies": []}
                if depth:
                    nd["replies"] = [node(depth - 1) for _ in range(rng.randint(1, 2))]
                return nd
            models = [["Root", [node(rng.randint(1, 2))]]]
            opts["merge"] = rng.choice([[["exact"]], [["percent", 0.7], ["number", 10]], [["percent", 0.7]]])
        if i % 16 == 7:
            # two or three user-named root models of the same shape, so they merge into one class whose name is built from the given
            # names; the names are related by case only, by containment, or not at all
            names = rng.choice([["Item", "ITEMS"], ["User", "USERDATA"], ["Order", "order_Line"], ["Point", "POINT"], ["item", "Item"],
                                ["Node", "NODES", "nodeList"], ["Alpha", "Beta"], ["Account", "ACCOUNT_Owner", "Owner"]])
            shape = {f"f{x}": rng.choice([1, "t", 2.5, True, [1]]) for x in range(rng.randint(2, 5))}
            models = [[nm, [dict(shape), dict(shape)][: rng.randint(1, 2)]] for nm in names]
            if rng.random() < 0.5:
                models[-1][1][0] = dict(models[-1][1][0], extra_field=1)
            opts["merge"] = rng.choice([[["exact"]], [["percent", 0.7], ["number", 10]], [["percent", 0.5]]])
            opts["dkr"], opts["dkf"] = [], []
        elif rng.random() < 0.25:
            jc2 = gen.json_case(rng, profile="merge")
            models.append(["Second", jc2["samples"]])
        cases.append({"i": i, "models": models, "opts": opts})
    return cases


# ---------------------------------------------------------------------------------------------------------
# batch runner (child process)

def batch_main(fin, fout, perturb):
    from .. import driver
    with open(fin) as f:
        cases = json.load(f)
    rnd = random.Random(perturb)
    out = {}
    garbage = []
    import signal

    class CaseTimeout(BaseException):
        pass

    def _alarm(signum, frame):
        raise CaseTimeout()

    signal.signal(signal.SIGALRM, _alarm)
    for c in cases:
        # heap perturbation: a seeded amount of garbage of mixed sizes that stays alive during the case
        garbage = [bytearray(rnd.randrange(16, 4096)) for _ in range(rnd.randrange(0, 400))] if perturb else []
        filler = [object() for _ in range(rnd.randrange(0, 2000))] if perturb else []
        rec = {}
        # the library's merge-group closure is exponential on some inputs: a case that does not finish is inconclusive in every
        # environment (never compared), it must not hold up the batch
        signal.setitimer(signal.ITIMER_REAL, 20)
        try:
            run = driver.infer([(n, s) for n, s in c["models"]], c["opts"])
            rec["merged"] = sum(1 for _n, old in run.replaces if len(old) >= 2)
            rec["multi_parent"] = sum(1 for m in run.registry.models
                                      if len({p.parent.index for p in m.pointers if p.parent is not None}) >= 2)
            for flat in (True, False):
                try:
                    code = driver.render(run, c["opts"], flat=flat)
                    rec["flat" if flat else "nested"] = code
                except Exception as e:
                    rec["flat" if flat else "nested"] = f"<<raised {type(e).__name__}: {e}>>"
        except CaseTimeout:
            rec = {"timeout": True}
        except Exception as e:
            rec["error"] = f"{type(e).__name__}: {e}"
        finally:
            signal.setitimer(signal.ITIMER_REAL, 0)
        out[str(c["i"])] = rec
        del filler
    with open(fout, "w") as f:
        json.dump(out, f)


def classify(a, b):
    la, lb = a.split("\n"), b.split("\n")
    if sorted(la) == sorted(lb):
        return "line-order"
    if sorted(re.findall(r"\w+", a)) == sorted(re.findall(r"\w+", b)):
        return "token-order"
    return "content"


def cli_runs(tmp, cases, envs):
    """a subset through the real CLI in subprocesses (header timestamp line masked)"""
    jobs = []
    for c in cases:
        d = os.path.join(tmp, f"cli{c['i']}")
        os.makedirs(d, exist_ok=True)
        argv = []
        for name, samples in c["models"]:
            if len(samples) >= 2 and c["i"] % 2:
                # one file per sample, selected by a glob pattern (and once more by an overlapping second pattern)
                sub = os.path.join(d, f"parts_{name}")
                os.makedirs(sub, exist_ok=True)
                for j, smp in enumerate(samples):
                    with open(os.path.join(sub, f"part{j:02d}.json"), "w") as f:
                        json.dump(smp, f)
                argv += ["-m", name, os.path.join(sub, "*.json")]
                continue
            p = os.path.join(d, f"{name}.json")
            with open(p, "w") as f:
                json.dump(samples, f)
            argv += ["-m", name, p]
        o = c["opts"]
        argv += ["-f", o["framework"], "-s", "flat" if o["flat"] else "nested", "--max-strings-literals", str(o["max_literals"])]
        pol = []
        for p in o["merge"]:
            pol.append(p[0] if len(p) == 1 else f"{p[0]}_{int(p[1] * 100) if p[0] == 'percent' else p[1]}")
        argv += ["--merge"] + pol
        jobs.append((c, d, argv))

    def run(job):
        c, d, argv = job
        outs = {}
        for hs in envs:
            from ..common import run_bounded
            r = run_bounded([PY, "-m", "json_to_models"] + argv, timeout=120, capture_output=True, text=True, cwd=d,
                            env=child_env(hashseed=hs))
            if getattr(r, "timed_out", False):
                return c, None
            txt = re.sub(r"(generated by json2python-models v\S+ at )[^\n]*", r"\1<time>", r.stdout)
            outs[str(hs)] = (r.returncode, txt)
        return c, outs

    from concurrent.futures import ThreadPoolExecutor
    with ThreadPoolExecutor(max_workers=NPROC) as ex:
        return list(ex.map(run, jobs))


def main():
    cases = gen_cases(seed(), N[tier()])
    envs = ENVS[tier()]
    v = Verdict(PROP, "exploration",
                "merge-heavy / literal-heavy / shared-and-recursive-graph cases (1-2 root models) rendered in both layouts; each "
                "batch executed in fresh processes under PYTHONHASHSEED in {0,1,2,3,17,4242,random,...} with seeded heap "
                "perturbation, plus a subset through the real CLI; outputs compared byte for byte (CLI: timestamp masked). "
                "non-trivial = case with >=1 merge group, or a model with >=2 parents, or a Literal with >=3 members",
                ["memory layouts cannot be enumerated: they are perturbed by seeded garbage allocation"])
    tmp = tempfile.mkdtemp(prefix="j2mverif_c06_")
    try:
        nchunks = max(1, min(len(cases), NPROC // 2))
        chunks = [cases[i::nchunks] for i in range(nchunks)]
        jobs = []
        for ci, chunk in enumerate(chunks):
            fin = os.path.join(tmp, f"in{ci}.json")
            with open(fin, "w") as f:
                json.dump(chunk, f)
            for ei, hs in enumerate(envs):
                jobs.append((ci, ei, hs, fin, os.path.join(tmp, f"out{ci}_{ei}.json")))
        running = []
        outputs = {}
        failures = []

        def reap(block):
            for item in list(running):
                p, job = item
                if block:
                    try:
                        p.wait(timeout=1800)
                    except subprocess.TimeoutExpired:
                        p.kill()
                if p.poll() is not None:
                    running.remove(item)
                    ci, ei, hs, fin, fout = job
                    if p.returncode == 0 and os.path.exists(fout):
                        with open(fout) as f:
                            outputs[(ci, ei)] = json.load(f)
                    else:
                        failures.append({"env": hs, "rc": p.returncode, "stderr": (p.stderr.read() or "")[-1500:]})
                    if block:
                        return

        for job in jobs:
            while len(running) >= NPROC:
                reap(True)
            ci, ei, hs, fin, fout = job
            p = subprocess.Popen([PY, "-m", "j2mverif.checks.c06", "--batch", fin, fout, str(ei * 1000 + seed())],
                                 env=child_env(hashseed=hs), stderr=subprocess.PIPE, stdout=subprocess.DEVNULL, text=True)
            running.append((p, job))
        while running:
            reap(True)
        v.infra = {"batch_processes": len(jobs), "failures": failures[:3], "environments": [str(e) for e in envs]}
        for ci, chunk in enumerate(chunks):
            per_env = [outputs.get((ci, ei)) for ei in range(len(envs))]
            for c in chunk:
                recs = [pe.get(str(c["i"])) if pe else None for pe in per_env]
                if any(r is None for r in recs):
                    v.add(c, {"status": "inconclusive", "why": "a batch process produced no result", "witnesses": []})
                    continue
                if any(r.get("timeout") for r in recs):
                    v.add(c, {"status": "inconclusive", "why": "case timeout", "witnesses": []})
                    continue
                wit = []
                for key in ("flat", "nested", "error"):
                    vals = [r.get(key) for r in recs]
                    distinct = sorted({hashlib.sha256((x or "").encode()).hexdigest() for x in vals})
                    if len(distinct) > 1:
                        a = vals[0]
                        b = next(x for x in vals if x != a)
                        ea, eb = envs[0], envs[vals.index(b)]
                        diff = "\n".join(list(difflib.unified_diff((a or "").split("\n"), (b or "").split("\n"), lineterm="", n=1))[:30])
                        wit.append({"property": PROP, "mechanism": f"output-differs:{key}:{classify(a or '', b or '')}",
                                    "msg": f"{len(distinct)} distinct outputs over {len(envs)} environments (e.g. PYTHONHASHSEED={ea} vs {eb}) "
                                           f"for layout {key}: " + diff[:500], "diff": diff})
                r0 = recs[0]
                lit3 = bool(re.search(r"Literal\[[^\]\n]*,[^\]\n]*,", (r0.get("flat") or "")))
                nontrivial = bool(r0.get("merged") or r0.get("multi_parent") or lit3)
                v.add(c, {"status": "violated" if wit else "held", "witnesses": wit, "nontrivial": nontrivial,
                          "counters": {"outputs_compared": 2 * len(envs), "cases_with_merge": int(bool(r0.get("merged"))),
                                       "cases_with_multi_parent": int(bool(r0.get("multi_parent"))), "cases_with_literal3": int(lit3),
                                       "generation_errors": int("error" in r0)},
                          "digest": digest(c)},
                      sample_view={"samples": c["models"][0][1][:2], "opts": c["opts"]})
        # CLI subset
        ncli = 24 if tier() == "quick" else 200
        cli_cases = [c for c in cases if c["opts"]["framework"] != "sqlmodel" or True][:ncli]
        for c, outs in cli_runs(tmp, cli_cases, ["0", "7", "4242", None]):
            if outs is None:
                v.add({"cli": True, **c}, {"status": "inconclusive", "why": "case timeout", "witnesses": []})
                continue
            texts = {t for _rc, t in outs.values()}
            v.counters["cli_runs"] += len(outs)
            if len(texts) > 1:
                a, b = sorted(texts)[:2]
                v.add({"cli": True, **c}, {"status": "violated", "nontrivial": True, "witnesses": [
                    {"property": PROP, "mechanism": "output-differs:cli:" + classify(a, b),
                     "msg": "CLI stdout differs between PYTHONHASHSEED values (timestamp masked)"}]})
            else:
                v.counters["cli_cases_identical"] += 1
    finally:
        shutil.rmtree(tmp, ignore_errors=True)
    return v.finish(floor_nontrivial=50, monitors_required=("outputs_compared", "cases_with_merge", "cases_with_multi_parent", "cli_runs"))


if __name__ == "__main__":
    if len(sys.argv) >= 5 and sys.argv[1] == "--batch":
        batch_main(sys.argv[2], sys.argv[3], int(sys.argv[4]))
