"""Shared case generation / execution for the program-level properties C01-C04."""
from .. import gen
from ..common import rng_for, digest


def gen_cases(prop, tier, seed, n, profiles=None, frameworks=None, key_hostile=False):
    cases = []
    for i in range(n):
        rng = rng_for(prop, seed, i)
        jc = gen.json_case(rng, profile=rng.choice(profiles) if profiles else None)
        sp = special_case(rng, i)
        if sp is not None:
            jc = sp
        opts = gen.options(rng, jc["samples"], frameworks=frameworks)
        adjust_opts(jc, opts)
        models = [["Root", jc["samples"]]] + maybe_second_root(rng, jc["samples"], jc["profile"])
        cases.append({"i": i, "profile": jc["profile"], "models": models, "opts": opts})
    return cases


def special_case(rng, i):
    """sub-workloads aimed at specific code paths (shared by C01-C04 and C03's own generator); None for ordinary cases"""
    if i % 25 == 11:
        # several objects of one shape (one merge group) whose list / dict field was seen empty, null-only and filled in turn
        variants = [[], [None], [1], [], [None, None], ["s"], [1.5], [[]], [{}]]
        dvariants = [{}, {"k1": None}, {"k1": 1}, {}, {"k1": "s"}]
        def leaf():
            return {"x": rng.choice(variants), "m": rng.choice(dvariants), "k": 1, "n": "s"}
        smp = {"a": [leaf() for _ in range(rng.randint(1, 3))], "b": leaf(), "c": leaf()}
        if rng.random() < 0.5:
            smp["d"] = {"inner": leaf()}
        return {"profile": "mergelists", "samples": [smp] + ([{"b": leaf()}] if rng.random() < 0.4 else [])}
    elif i % 40 == 17:
        # names of merged models: two same-shaped objects merge into a model named after both keys ('Billing_Shipping') next
        # to a model whose own key is the concatenation of the two ('billingShipping', 'billing_shipping', ...)
        k1, k2 = sorted(rng.sample(["billing", "shipping", "home", "work", "source", "target", "alpha", "beta"], 2))
        shape = {"street": "s", "zip": 1, "city": "x", "geo": [1.5]}
        joined = rng.choice([k1 + k2.capitalize(), k1 + "_" + k2, k1.capitalize() + k2.capitalize(), k1 + "-" + k2, k2 + k1.capitalize()])
        smp = {k1: dict(shape), k2: dict(shape, zip=2), joined: {"flag": True, "n": 1.5}, "id": 1}
        if rng.random() < 0.3:
            smp = {"order": smp}
        return {"profile": "mergenames", "samples": [smp]}
    elif i % 150 == 5:
        # deep documents: list nesting up to 190 (CPython refuses more than 200 nested brackets in an annotation), object chains up
        # to 96 levels (CPython refuses more than 100 indentation levels, which bounds the nested layout); distinct keys per level
        # keep the model graph a tree
        if rng.random() < 0.5:
            v = rng.choice([1, [1, 2.5], "s", {"a": 1}, [], None])
            for _ in range(rng.choice([40, 120, 190])):
                v = [v]
            smp = {"deep": v, "k": 1}
        else:
            d = rng.choice([30, 60, 93, 96])
            v = {"leaf": rng.choice([1, "s", [1]])}
            for lvl in reversed(range(d)):
                v = {f"k{lvl}": v, "n": lvl}
            smp = v
        return {"profile": "deep", "samples": [smp]}
    elif i % 60 == 23:
        # long arrays (257-1200 items) whose deviating item - another scalar type, null, an object with a new key, an object lacking
        # a key - comes late: nothing about a list may be decided from a prefix of it
        n = rng.choice([257, 300, 513, 1025, 1200])
        kind = rng.choice(["scalars", "objects", "strings"])
        if kind == "scalars":
            arr = [rng.randrange(100) for _ in range(n)]
            arr[rng.randrange(256, n)] = rng.choice(["n/a", None, 2.5, [1], {"v": 1}])
        elif kind == "strings":
            arr = [str(rng.randrange(100)) for _ in range(n)]
            arr[rng.randrange(256, n)] = rng.choice(["n/a", None, "2.5", 7])
        else:
            arr = [{"id": j, "name": "s"} for j in range(n)]
            j = rng.randrange(256, n)
            arr[j] = rng.choice([{"id": j, "name": "s", "late_key": 1}, {"id": j}, {"id": None, "name": "s"}, {"id": "x", "name": "s"}])
        smp = {"values": arr, "k": 1}
        if rng.random() < 0.3:
            smp = {"wrap": smp, "n": 1}
        return {"profile": "longlist", "samples": [smp]}
    elif i % 60 == 37:
        # a key spelled exactly like the class name of the model it sits in ('Item' inside the object under 'Item' / 'item' / 'items',
        # 'Root' in the root object): class-name and field-name conversion of one and the same text
        n = rng.choice(["Item", "Order", "Point", "Entry", "UserProfile"])
        outer = rng.choice([n, n[0].lower() + n[1:], n.lower() + "s", n])
        inner = {n: rng.choice([1, "s", [1], None, {"v": 1}]), "qty": 1}
        smp = {outer: inner if rng.random() < 0.6 else [inner, dict(inner, qty=2)], "id": 1}
        if rng.random() < 0.5:
            smp["Root"] = rng.choice([1, "s", {"Root": 1, "z": 2}])
        return {"profile": "selfnamed", "samples": [smp]}
    return None


def adjust_opts(jc, opts):
    if jc["profile"] == "mergelists":
        opts["dkr"] = [r"k\d+"]
    if jc["profile"] == "mergenames" and not any(m[0] == "exact" or (m[0] == "percent" and m[1] <= 100) for m in opts["merge"]):
        opts["merge"] = list(opts["merge"]) + [["exact"]]
    if jc["profile"] == "deep":
        opts["merge"], opts["dkr"], opts["dkf"] = [], [], []
    if jc["profile"] in ("longlist", "selfnamed"):
        opts["dkr"], opts["dkf"] = [], []


def maybe_second_root(rng, samples, profile, p=0.15):
    """a second model name, as the CLI allows (-m A ... -m B ...): sometimes drawn from the same schema so that models of the
    two roots merge across roots; sometimes named like the class a nested object of the first root gets (Profile vs 'profile')"""
    if rng.random() >= p:
        return []
    if rng.random() < 0.5:
        second = gen.Schema(rng, profile if profile in ("general", "merge", "tree", "strings", "literals", "small") else "general").samples()
    else:
        second = [dict(s) for s in samples[: rng.randint(1, len(samples))]]
        if rng.random() < 0.5:
            second[0]["extra_key"] = 1
    name2 = "Second"
    if rng.random() < 0.4:
        okeys = [k for smp in samples for k, v in smp.items() if isinstance(v, (dict, list)) and k.isalpha() and k.islower()]
        if okeys:
            k = rng.choice(okeys)
            name2 = (k[:-1] if k.endswith("s") and not k.endswith("ss") else k).capitalize()
    return [[name2, second]]


def shape_stats(samples):
    n_obj = 0
    kinds_by_pos = {}

    def rec(v, pos):
        nonlocal n_obj
        kinds_by_pos.setdefault(pos, set()).add(kind(v))
        if isinstance(v, dict):
            n_obj += 1
            for k, x in v.items():
                rec(x, pos + (k,))
        elif isinstance(v, list):
            for x in v:
                rec(x, pos + ("[]",))

    def kind(v):
        if v is None:
            return "null"
        if isinstance(v, str):
            return "str"
        return type(v).__name__

    for s in samples:
        for k, x in s.items():
            rec(x, (k,))
    return {"nested_objects": n_obj, "mixed_positions": sum(1 for ks in kinds_by_pos.values() if len(ks) >= 2)}


def run_case(case, prop, props):
    from .. import analysis
    models = [(n, s) for n, s in case["models"]]
    a = analysis.run_all(models, case["opts"], props=props)
    mine = [w for w in a.w if w["property"] == prop]
    samples = [s for _, ss in models for s in ss]
    ss = shape_stats(samples)
    counters = {k: v for k, v in a.stats.items() if isinstance(v, int)}
    counters["fw_" + case["opts"]["framework"]] = 1
    counters["layout_" + ("flat" if case["opts"]["flat"] else "nested")] = 1
    if prop in a.blocked and not mine:
        if a.run is not None and not case["opts"]["flat"] and a.tab is None:
            from .. import driver
            if not driver.is_tree(a.run.registry):
                counters["outside_claim_nested_non_tree"] = 1
                return {"status": "outside", "why": "nested layout on a non-tree model graph (outside the claim of C03)",
                        "witnesses": [], "counters": counters}
        return {"status": "blocked", "why": a.blocked[prop], "witnesses": [], "counters": counters,
                "others": sorted({w["property"] + ":" + w["mechanism"] for w in a.w})}
    return {
        "status": "violated" if mine else "held",
        "witnesses": mine,
        "counters": counters,
        "shape": ss,
        "n_samples": len(samples),
        "digest": digest([case["models"], case["opts"]]),
    }
