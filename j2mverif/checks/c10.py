"""C10 - Literal annotations follow the documented limits and hold exact values (evaluated annotations of loaded modules)."""
import typing

from ..common import Verdict, digest, rng_for, run_shards, seed, tier

PROP = "C10"
N = {"quick": 12000, "thorough": 150000}
ALPHA = ["a", "b", "z", "A", '"', "'", "\\", "\n", "\t", ",", " ", "]", "[", "é", "ß", "日", "ж", "😀", "𝄞", "{", "}", "%", "#", "$", "\r", "\x7f", " ", "\x00",
         # strings that are not in Unicode normal form C / compatibility characters / an unpaired surrogate: a Literal holds the exact observed value
         "e\u0301", "\u0301", "\u212b", "\u2126", "\ufb01", "\u1100\u1161", "\ud83d", "A\u030a"]
FW = ["base", "pydantic", "dataclasses", "attrs", "sqlmodel"]
PSEUDO = ["1", "42", "2.5", "1e3", "true", "False", "2018-01-02", "10:30:00", "2018-01-02T10:30:00"]


def rand_string(rng, length=None):
    if length is None:
        r = rng.random()
        length = rng.choice([18, 19, 20, 21]) if r < 0.2 else rng.choice([0, 1, 1, 2, 3, 5, 8, 12, 17, 22])
    r = rng.random()
    if r < 0.08:
        # otherwise plain strings that end / start with a line break or control character
        base = "".join(rng.choice("abcXYZ019 _.:/+-") for _ in range(max(0, min(length, 17) - 1)))
        return rng.choice([base + "\n", base + "\r", base + "\t", "\n" + base, base + "\n\n", base + " ", base + "\x0b", base + "\x1c", base + "\u2028"])
    if r < 0.5:
        return "".join(rng.choice("abcdefghij") for _ in range(length))
    return "".join(rng.choice(ALPHA) for _ in range(length))


def gen_cases_for(seed_, n):
    cases = []
    for i in range(n):
        rng = rng_for(PROP, seed_, i)
        r = rng.random()
        if r < 0.12:
            # comma-join collisions: small alphabet with comma, inside lists
            pool = ["a", "b", "a,b", "b,a", ",", "a,", ",a", "a,b,c", "c", "b,c", ""]
            k = rng.randint(1, 5)
            strs = rng.sample(pool, k)
        else:
            k = rng.choice([0, 1, 2, 3, 5, 8, 9, 10, 11, 14, 15, 16, 17])
            if rng.random() < 0.35:
                # around the length boundary
                strs = list({rand_string(rng, rng.choice([18, 19, 19, 20, 21])) if rng.random() < 0.3 else rand_string(rng, rng.randint(0, 6))
                             for _ in range(k)})
            else:
                strs = list({rand_string(rng, rng.randint(0, 8)) for _ in range(k)})
        extra = []
        if rng.random() < 0.3:
            extra += rng.sample(PSEUDO, rng.randint(1, 3))
        if rng.random() < 0.2:
            extra.append(None)
        if rng.random() < 0.15:
            extra.append(rng.choice([1, 2.5, True, [1], {"k": 1}]))
        prefix_twin = None
        if rng.random() < 0.06:
            # a plain string that shares its first 20-26 characters with a long pseudo-typed string the same generator has already
            # seen under another key: the plain one is 20 characters or longer, so the position generalises to str
            prefix_twin = rng.choice(["3.141592653589793238", "12345678901234567890123", "2018-01-02T10:30:00.000000", "0.000000000000000000001"])
            extra.append(prefix_twin + rng.choice([" rad", "x", " ", "Z?", "e"]))
        values = strs * rng.choice([1, 1, 2]) + extra
        rng.shuffle(values)
        shape = rng.choice(["field", "field", "list", "listsplit", "nested"])
        if r < 0.12 and rng.random() < 0.6:
            # a joined string in one list, its comma-separated parts together in another
            joined = rng.choice(["a,b", "b,a", "a,b,c", "a,", ",a", ","])
            parts = joined.split(",")
            values = [joined] + parts
            shape = "listpair"
            samples = [{"f": [joined]}, {"f": parts}]
            if rng.random() < 0.5:
                samples.reverse()
        elif shape == "field":
            samples = [{"f": v, "g": 0} for v in values] or [{"g": 0}]
        elif shape == "list":
            samples = [{"f": values, "g": 0}]
        elif shape == "listsplit":
            cut = rng.randint(0, len(values))
            samples = [{"f": values[:cut]}, {"f": values[cut:]}]
            if rng.random() < 0.5:
                samples = [{"f": [v]} for v in values] or [{"f": []}]
        else:
            samples = [{"n": {"f": v}} for v in values] or [{"n": {"g": 1}}]
        if not samples:
            samples = [{"g": 0}]
        max_l = rng.choice(list(range(0, 18)))
        if prefix_twin is not None:
            samples[0] = {"p": prefix_twin, **samples[0]}
        reg = rng.choice([["IntString", "FloatString", "BooleanString"]] * 2 + [[]] +
                         [["IntString", "FloatString", "BooleanString", "IsoDateString", "IsoTimeString", "IsoDatetimeString"]])
        fw = rng.choice(FW)
        key = rng.choice(["f"] * 6 + ["id", "pk", "key", "name"])
        if key != "f":
            # the same position under a key that some frameworks treat specially (sqlmodel primary keys)
            def ren(o):
                if isinstance(o, dict):
                    return {(key if k == "f" else k): ren(x) for k, x in o.items()}
                return o
            samples = [ren(smp) for smp in samples]
        cases.append({"i": i, "shape": shape, "values": values, "key": key, "models": [["Root", samples]],
                      "opts": {"framework": fw, "flat": True, "merge": [["percent", 0.7], ["number", 10]], "max_literals": max_l,
                               "convert_unicode": True, "registry": reg, "dkf": [], "dkr": [], "post_init_converters": False, "meta": False}})
    return cases


def find_literals(T, out):
    org = typing.get_origin(T)
    if org is typing.Literal:
        out.append(set(typing.get_args(T)))
        return
    for a in typing.get_args(T):
        find_literals(a, out)


def has_str(T):
    if T is str:
        return True
    return any(has_str(a) for a in typing.get_args(T) if typing.get_origin(T) is not typing.Literal)


def run_case(case):
    from .. import driver, mme, oracle
    opts = case["opts"]
    fw = opts["framework"]
    models = [(n, s) for n, s in case["models"]]
    try:
        run = driver.pipeline(models, opts)
    except Exception as e:
        if type(e).__name__ == "CaseTimeout":
            raise
        return {"status": "outside", "why": f"generation raised {type(e).__name__} (C01 reports it)", "witnesses": [], "counters": {}}
    wit = []
    try:
        mod = mme.load(run.code)
    except mme.LoadError as e:
        return {"status": "violated", "nontrivial": True, "counters": {}, "digest": digest(case), "witnesses": [
            {"property": PROP, "mechanism": f"literal-module-does-not-load:{type(e.exc).__name__}", "msg": f"{e}"[:400]}]}
    try:
        tab = mme.table(mod, fw)
        pos_cls = "N" if case["shape"] == "nested" else "Root"
        infos = [i for i in tab.values() if i.name == pos_cls]
        fm = oracle.FirstMatch(run.str_registry.types)
        strings = [v for v in case["values"] if isinstance(v, str)]
        plain = {s for s in strings if fm(s) is None}
        pseudo = {fm(s).__name__ for s in strings if fm(s) is not None}
        if "IntString" in pseudo and "FloatString" in pseudo:
            pseudo.discard("IntString")
        generalised = len(pseudo) > 1
        max_l = opts["max_literals"]
        expect = (fw != "attrs" and max_l > 0 and bool(plain) and all(len(s) < 20 for s in plain) and len(plain) <= 15
                  and len(plain) < max_l and not generalised)
        lits = []
        ann = None
        key = case.get("key", "f")
        fname = next((n for n in (key, key + "_") if infos and n in infos[0].fields), None)
        if fname:
            ann = infos[0].fields[fname].ann
            find_literals(ann, lits)
        elif plain:
            return {"status": "inconclusive", "why": f"field {key} not found in the loaded module", "witnesses": [], "counters": {}}
        got = bool(lits)
        boundary = any(len(s) in (19, 20) for s in plain) or len(plain) in (15, 16) or len(plain) in (max_l - 1, max_l) \
            or any(ch in s for s in plain for ch in '"\\\n,\'😀𝄞')
        if got and not expect:
            why = ("framework attrs" if fw == "attrs" else "max_literals=0" if max_l == 0 else
                   "a string of >=20 chars" if any(len(s) >= 20 for s in plain) else
                   ">15 distinct" if len(plain) > 15 else f"{len(plain)} distinct >= max {max_l}" if len(plain) >= max_l else
                   "position generalised to str by conflicting pseudo-types" if generalised else "no plain strings")
            wit.append({"property": PROP, "mechanism": "literal-present-against-rule", "msg": f"{oracle.tstr(ann)} although {why}; plain={sorted(plain)!r:.200}"})
        if expect and not got:
            wit.append({"property": PROP, "mechanism": "literal-absent-against-rule",
                        "msg": f"annotation {oracle.tstr(ann)} has no Literal; {len(plain)} plain strings, all < 20 chars, max_literals={max_l}, "
                               f"pseudo={sorted(pseudo)}: {sorted(plain)!r:.200}"})
        if got:
            allv = set().union(*lits)
            if len(lits) > 1:
                wit.append({"property": PROP, "mechanism": "several-literals-at-one-position", "msg": oracle.tstr(ann)})
            if allv != plain:
                wit.append({"property": PROP, "mechanism": "literal-values-differ",
                            "msg": f"Literal holds {sorted(allv)!r:.200} but observed plain strings are {sorted(plain)!r:.200}; "
                                   f"missing {sorted(plain - allv)!r:.100} extra {sorted(allv - plain)!r:.100}"})
        elif ann is not None and plain and not has_str(ann) and ann is not typing.Any:
            wit.append({"property": PROP, "mechanism": "plain-strings-not-admitted", "msg": f"{oracle.tstr(ann)} has neither Literal nor str; plain={sorted(plain)!r:.200}"})
        return {"status": "violated" if wit else "held", "witnesses": wit, "nontrivial": bool(plain) and boundary, "digest": digest(case),
                "counters": {"positions": 1, "literal_present": int(got), "literal_expected": int(expect), "hostile_char_sets": int(any(ch in s for s in plain for ch in '"\\\n,\'😀𝄞')),
                             "fw_" + fw: 1}}
    finally:
        mme.unload(mod)


def main():
    cases = gen_cases_for(seed(), N[tier()])
    v = Verdict(PROP, "exploration",
                "sets of 0-17 strings (lengths 0-22 concentrated at 18-21; alphabet with quotes, backslash, newline, tab, comma, brackets, "
                "BMP and non-BMP non-ASCII, control characters; comma-join collision pools), optionally mixed with pseudo-typed strings, "
                "null and non-strings, placed at a field / list-element / nested-model position x max_literals 0..17 x 5 frameworks x "
                "registries; the annotation of the loaded module is evaluated and compared with the documented rule and the observed plain "
                "strings. non-trivial = set within 1 of a boundary (length 19/20, 15/16 distinct, max-1/max) or containing a hostile character",
                ["'generalised to str' is modelled as: >1 distinct pseudo-type detected at the position after the IntString->FloatString replacement"])
    results, infra = run_shards(PROP, cases, timeout_per_case=8)
    v.infra = infra
    for c, r in zip(cases, results):
        v.add(c, r, sample_view={"values": c["values"][:8], "max_literals": c["opts"]["max_literals"], "framework": c["opts"]["framework"], "shape": c["shape"]})
    return v.finish(floor_nontrivial=100, monitors_required=("positions", "literal_present", "literal_expected", "hostile_char_sets"))
