"""C15 - generation works from any thread and concurrent runs do not interfere.
Real threads run independent pipelines under a 1 microsecond switch interval and seeded yield injection
(sys.monitoring LINE events inside json_to_models); each thread's output must equal its solo output computed in a
pristine process.  The driver timestamps every thread's generate_code window and counts overlaps / interleavings."""
import os
import random
import sys
import threading
import time

from .. import gen
from ..common import Verdict, digest, rng_for, run_shards, seed, tier
from . import c14

PROP = "C15"
N = {"quick": 600, "thorough": 8000}
FWS = ["base", "pydantic", "attrs", "dataclasses", "sqlmodel"]
TOOL = 2


def make_input(rng, k):
    r = rng.random()
    if r < 0.2:
        # many date/time strings with the datetime types registered (parsing them is where dateutil, warnings and other
        # process-global machinery are exercised); some carry a zone abbreviation dateutil does not know
        zoned = rng.random() < 0.5
        times = ["10:00", "23:59:59", "07:05", "12:00:00.5"] + (["10:00 EST", "12:30 PST", "08:15 CEST"] if zoned else [])
        if rng.random() < 0.4:
            # strings on which dateutil's own arithmetic fails (29+ digit fraction, huge offsets): parsed as plain str
            times += ["12:" + "4815162342" * 4, "10:30:" + "9" * 30, "1:2:3.4e999"]
        dates = ["2020-05-06", "1999-12-31", "2018-01-02"]
        samples = [{"at": rng.choice(times), "on": rng.choice(dates), "slots": [rng.choice(times) for _ in range(rng.randint(2, 6))],
                    "days": [rng.choice(dates) for _ in range(rng.randint(2, 6))], f"n{k}": j} for j in range(rng.randint(3, 8))]
        return {"samples": samples, "merge": [["exact"]], "convert_unicode": True, "registry": list(gen.STR_TYPES),
                "max_literals": rng.choice([0, 10]), "name": f"Root{k}"}, True
    if r < 0.6:
        a, b, c = rng.sample(["alpha", "beta", "gamma", "delta", "omega", "sigma", "kappa", "theta"], 3)
        child = {"x": 1, "y": rng.choice([2, "s", 2.5]), f"t{k}": k}
        samples = [{a: {"first": dict(child), b: {"inner": dict(child), "z": k}}, c: {"k": [1], f"u{k}": "s"}}]
        merge = [["exact"]]
        flat = False
    elif r < 0.75:
        ks = rng.sample(["données", "ключ", "straße", "naïve", "Ünï", "λέξη", "émigré", "ñandú", "plain", "other"], 4)
        samples = [{ks[0]: 1, ks[1]: {ks[2]: "s", ks[3]: [1]}}, {ks[0]: 2, ks[1]: {ks[2]: "t"}}]
        merge = [["exact"]]
        flat = rng.random() < 0.5
    else:
        samples = gen.json_case(rng, profile=rng.choice(["small", "merge", "strings"]))["samples"]
        merge = gen.merge_policy(rng)
        flat = True
    return {"samples": samples, "merge": merge, "convert_unicode": rng.random() < 0.6,
            "registry": rng.choice([["IntString", "FloatString", "BooleanString"], gen.STR_TYPES]),
            "max_literals": rng.choice([0, 5, 10, 16]), "name": f"Root{k}"}, flat


def gen_cases_for(seed_, n):
    cases = []
    for i in range(n):
        rng = rng_for(PROP, seed_, i)
        nthreads = 1 if i % 5 == 0 else rng.choice([2, 2, 3, 4, 4, 6, 8])
        inputs, ops = [], []
        # one list of disabled string types for all Cli threads of the case, another one in (nearly) every case: whatever the Cli keeps
        # per option set is then used for the first time in this process by several threads at once
        dis = rng.sample(["int", "float", "bool", "IntString", "FloatString", "BooleanString"], rng.choice([0, 1, 1, 2, 2, 3]))
        for k in range(nthreads):
            inp, flat = make_input(rng, k)
            inputs.append(inp)
            if i % 6 == 1:
                # the pipeline as the Cli class runs it, writing -o FILE into a directory shared by the threads of this case
                extra = ["--merge", "exact"] if inp["merge"] == [["exact"]] else []
                if inp["registry"] == list(gen.STR_TYPES):
                    extra += ["--datetime"]
                if dis:
                    extra += ["--disable-str-serializable-types"] + dis
                ops.append({"op": "cli", "input": k, "fw": rng.choice(FWS), "flat": True, "extra": extra, "outname": f"models_{k}.py",
                            "fmt": "yaml" if i % 12 == 7 else "json"})
            elif nthreads == 1 and i % 10 == 5:
                # per-model rendering (GeneratorClass(model).generate()) from a thread that never ran generate_code
                ops.append({"op": "direct", "input": k, "fw": rng.choice(FWS), "flat": flat})
            elif nthreads > 1 and rng.random() < 0.15:
                ops.append({"op": "direct", "input": k, "fw": rng.choice(FWS), "flat": flat})
            else:
                ops.append({"op": "gen", "input": k, "fw": rng.choice(FWS), "flat": flat})
        cases.append({"i": i, "inputs": inputs, "ops": ops, "rate": rng.choice([0.01, 0.03, 0.08]) if nthreads > 1 else 0.0,
                      "sched_seed": rng.randrange(1 << 30)})
    return cases


def setup_worker():
    c14.setup_worker()
    sys.setswitchinterval(1e-6)


class YieldInjector:
    """seeded sleep(0) on a fraction of LINE events inside json_to_models, per thread"""

    def __init__(self, rate, seed_):
        self.rate = rate
        self.seed = seed_
        self.local = threading.local()
        self.injected = 0

    def arm_thread(self, k):
        self.local.rnd = random.Random(self.seed * 1000 + k)

    def __enter__(self):
        if self.rate <= 0:
            return self
        mon = sys.monitoring
        mon.use_tool_id(TOOL, "j2mverif-yield")
        marker = os.sep + "json_to_models" + os.sep

        def line(code, lineno):
            if marker not in code.co_filename:
                return mon.DISABLE
            rnd = getattr(self.local, "rnd", None)
            if rnd is not None and rnd.random() < self.rate:
                self.injected += 1
                time.sleep(0)

        mon.register_callback(TOOL, mon.events.LINE, line)
        mon.set_events(TOOL, mon.events.LINE)
        return self

    def __exit__(self, *a):
        if self.rate <= 0:
            return False
        mon = sys.monitoring
        mon.set_events(TOOL, 0)
        mon.register_callback(TOOL, mon.events.LINE, None)
        mon.free_tool_id(TOOL)
        mon.restart_events()
        return False


def run_case(case):
    from .. import driver
    inputs, ops = case["inputs"], case["ops"]
    n = len(ops)
    # solo outputs from pristine processes
    solo = []
    for op in ops:
        ref = c14.ZYG.alone(inputs, op)
        if ref is None or ref.get("reference_died"):
            return {"status": "inconclusive", "why": "reference process died", "witnesses": [], "counters": {}}
        solo.append(ref)
    out = [None] * n
    win = [None] * n
    import shutil
    import tempfile
    shared_dir = None
    if any(op["op"] == "cli" for op in ops):
        shared_dir = tempfile.mkdtemp(prefix="j2m_c15_")
        ops = [dict(op, outdir=shared_dir) if op["op"] == "cli" else op for op in ops]
    inj = YieldInjector(case["rate"], case["sched_seed"])
    barrier = threading.Barrier(n) if n > 1 else None
    events = []
    orig_generate_code = driver.generate_code

    def timed_generate_code(*a, **kw):
        k = getattr(inj.local, "k", None)
        t0 = time.monotonic_ns()
        events.append((t0, k, "enter"))
        try:
            return orig_generate_code(*a, **kw)
        finally:
            t1 = time.monotonic_ns()
            events.append((t1, k, "exit"))
            if k is not None:
                win[k] = (t0, t1)

    def work(k):
        inj.arm_thread(k)
        inj.local.k = k
        try:
            if barrier:
                barrier.wait(timeout=20)
            out[k] = c14.exec_op({}, inputs, ops[k])
        except BaseException as e:
            out[k] = {"raised": f"thread harness: {type(e).__name__}: {e}"}

    import json_to_models.cli as jcli
    driver.generate_code = jcli.generate_code = timed_generate_code
    try:
        with inj:
            threads = [threading.Thread(target=work, args=(k,), daemon=True) for k in range(n)]
            for t in threads:
                t.start()
            deadline = time.time() + 40
            for t in threads:
                t.join(max(0.1, deadline - time.time()))
            alive = [t for t in threads if t.is_alive()]
    finally:
        driver.generate_code = jcli.generate_code = orig_generate_code
        if shared_dir:
            shutil.rmtree(shared_dir, ignore_errors=True)
    if alive:
        return {"status": "inconclusive", "why": f"{len(alive)} threads did not finish within the bound", "witnesses": [], "counters": {}}
    wit = []
    for k in range(n):
        got, ref = out[k], solo[k]
        if got is None:
            wit.append({"property": PROP, "mechanism": "thread-produced-nothing", "msg": f"thread {k} returned nothing"})
        elif "raised" in got and "raised" not in ref:
            wit.append({"property": PROP, "mechanism": f"raises-only-in-worker-thread:{got['raised'].split(':')[0]}" if n == 1
                        else f"raises-only-under-concurrency:{got['raised'].split(':')[0]}",
                        "msg": f"thread {k} of {n} ({ops[k]['fw']}, flat={ops[k]['flat']}) raised {got['raised']} at {got.get('site')}; the same call alone succeeds"})
        elif "text" in got and "text" in ref and got["text"] != ref["text"]:
            import difflib
            diff = "\n".join(list(difflib.unified_diff(ref["text"].split("\n"), got["text"].split("\n"), "solo", "concurrent", lineterm="", n=0))[:10])
            wit.append({"property": PROP, "mechanism": "output-differs-from-solo" + (":single-thread" if n == 1 else ":concurrent"),
                        "msg": f"thread {k} of {n} ({ops[k]['fw']}, flat={ops[k]['flat']}): {diff}"[:700]})
    ws = sorted(w for w in win if w)
    overlaps = sum(1 for i, a in enumerate(ws) for b in ws[i + 1:] if b[0] < a[1])
    sig = tuple((k, kind) for _t, k, kind in sorted(events))
    cnt = {"threads_run": n, "schedules": 1, "overlapping_render_windows": overlaps, "yields_injected": inj.injected,
           "single_thread_runs": int(n == 1), "render_windows": len(ws), "cli_pipelines_with_output_file": sum(1 for op in ops if op["op"] == "cli")}
    return {"status": "violated" if wit else "held", "witnesses": wit[:4], "counters": cnt, "sig": digest(sig),
            "nontrivial": n == 1 or overlaps > 0, "digest": digest(case)}


def main():
    cases = gen_cases_for(seed(), N[tier()])
    v = Verdict(PROP, "exploration",
                "schedules: 1 in 5 a single pipeline in a fresh worker thread; otherwise 2-8 threads with independent inputs (nested layout "
                "with a shared child model -> non-empty, per-thread path-injection map; non-ASCII keys with differing unicode option; random "
                "inputs; 1 case in 6: every thread runs the Cli class with -o FILE into one directory shared by the threads), barrier start, switch interval 1us, seeded sleep(0) injected on 1-8% of LINE events inside json_to_models. Oracle: "
                "per thread output == solo output from a pristine process. The driver timestamps each thread's generate_code window; "
                "non-trivial = single-thread run, or a schedule in which >=2 render windows actually overlapped",
                ["schedules cannot be enumerated; evidence reports overlapping windows and distinct interleaving signatures observed"])
    results, infra = run_shards(PROP, cases, timeout_per_case=90, jobs=8)
    v.infra = infra
    sigs = set()
    for c, r in zip(cases, results):
        if r.get("sig"):
            sigs.add(r["sig"])
        v.add(c, r, sample_view={"threads": [(o["fw"], o["flat"]) for o in c["ops"]], "rate": c["rate"]})
    v.extra["distinct_interleaving_signatures"] = len(sigs)
    return v.finish(floor_nontrivial=50, monitors_required=("overlapping_render_windows", "single_thread_runs", "yields_injected"))
