"""C11 - JSON keys survive renaming: distinct keys give distinct, recoverable fields (framework field tables of the
loaded module) and valid, distinct, non-colliding class names."""
import keyword

from .. import gen
from ..common import Verdict, digest, rng_for, run_shards, seed, tier

PROP = "C11"
N = {"quick": 12000, "thorough": 200000}
EXTRA_ALPHA = list("abcXYZ019_-. $@#\"'\\/:+[]{}%\t\n") + ["é", "ß", "ж", "Ж", "λ", "Ա", "ñ", "Ç", "ø", "İ", "ǅ"]
NAMING_ROOT = ("name-shadows-import", "name-shadows-import:documented-reserved-name", "class-field-name-clash",
               "name-reserved-by-framework:pydantic-basemodel-attribute", "name-reserved-by-framework:attrs-self",
               "duplicate-class-name:sanitised")


def _nfkc(t):
    # Python normalises identifiers (NFKC): an error message spells '__i\u01c6_' as '__id\u017e_'
    import unicodedata
    return unicodedata.normalize("NFKC", t)


def random_key(rng):
    n = rng.randint(1, 8)
    k = "".join(rng.choice(EXTRA_ALPHA) for _ in range(n))
    return k


def gen_cases_for(seed_, n):
    cases = []
    for i in range(n):
        rng = rng_for(PROP, seed_, i)
        nkeys = rng.randint(1, 6)
        keys = []
        seen = set()
        tries = 0
        while len(keys) < nkeys and tries < 80:
            tries += 1
            k = random_key(rng) if rng.random() < 0.3 else rng.choice(gen.KEY_STYLES[rng.choice(list(gen.KEY_STYLES))])
            if rng.random() < 0.08:
                k = k + rng.choice(["", "2", "_x", "-y", " z", "Id"])
            f = gen.ufold(k)
            # the documented domain: at least one ASCII-transliterable letter; pairwise distinct after folding;
            # (leading underscore / digit keys are exercised by the finding probes only)
            if not gen.has_ascii_letter_after_translit(k) or not f or f in seen or k[0] == "_" or k[0].isdigit():
                continue
            # the first character must survive sanitising as a letter or digit (else the label is empty or starts oddly)
            seen.add(f)
            keys.append(k)
        def inner_obj():
            # nested models carry hostile keys as well (nested classes are indented and referenced differently)
            o = {"inner": 1}
            for _ in range(rng.randint(0, 2)):
                k2 = random_key(rng) if rng.random() < 0.3 else rng.choice(gen.KEY_STYLES[rng.choice(list(gen.KEY_STYLES))])
                f2 = gen.ufold(k2)
                if gen.has_ascii_letter_after_translit(k2) and f2 and k2[0] not in "_0123456789" and f2 not in {gen.ufold(x) for x in o}:
                    o[k2] = rng.choice(["s", 2])
            return o

        obj = {}
        for k in keys:
            r = rng.random()
            if r < 0.25:
                obj[k] = dict(inner_obj(), other="s")
            elif r < 0.35:
                obj[k] = [inner_obj()]
            else:
                obj[k] = rng.choice([1, 2.5, True, "s", None, [1], "1"])
        samples = [obj]
        if rng.random() < 0.4 and len(keys) > 1:
            samples.append({k: v for k, v in obj.items() if rng.random() < 0.7} or dict(obj))
        fw = rng.choice(["pydantic", "sqlmodel", "attrs", "dataclasses"])
        models = [["Root", samples]]
        okeys = [k for k, v in obj.items() if isinstance(v, (dict, list)) and k.isalpha() and k.isascii()]
        if okeys and rng.random() < 0.2:
            # a second, user-named model whose name equals the class name derived from an object-valued key of the first
            k = rng.choice(okeys)
            nm = (k[:-1] if k.endswith("s") and not k.endswith("ss") else k)
            models.append([nm[:1].upper() + nm[1:], [{"second_only": 1, "zz": "s"}]])
        cases.append({"i": i, "models": models,
                      "opts": {"framework": fw, "flat": rng.random() < 0.7, "merge": [["exact"]], "max_literals": 10,
                               "convert_unicode": rng.random() < 0.6, "registry": ["IntString", "FloatString", "BooleanString"],
                               "dkf": [], "dkr": [], "post_init_converters": False, "meta": True}})
    # finding probes (outside the documented domain)
    probes = [
        ("folded-equal-keys", [{"fooBar": 1, "foo_bar": 2}], "pydantic"),
        ("folded-equal-keys", [{"user-id": 1, "user_id": 2, "x": 3}], "dataclasses"),
        ("empty-label", [{"$": 1, "a": 2}], "pydantic"),
        ("empty-label", [{"日本": 1}], "dataclasses"),
        ("leading-underscore-label", [{"_id": 1, "name": "x"}], "pydantic"),
        ("leading-underscore-label", [{"0x": 1, "name": "x"}], "attrs"),
    ]
    for mech, samples, fw in probes:
        cases.append({"i": len(cases), "probe": mech, "models": [["Root", samples]],
                      "opts": {"framework": fw, "flat": True, "merge": [["exact"]], "max_literals": 10, "convert_unicode": fw == "pydantic",
                               "registry": ["IntString", "FloatString", "BooleanString"], "dkf": [], "dkr": [], "post_init_converters": False,
                               "meta": True}})
    return cases


def underscore_labels(reg, opts):
    from .. import driver
    kw = driver.generator_kwargs(opts)
    out = []
    for m in reg.models:
        g = driver.FW[opts["framework"]](m, **kw)
        out += [k for k in m.type if g.convert_field_name(k).startswith("_")]
    return out


def run_case(case):
    from .. import analysis, driver, mme
    from . import c03
    opts = case["opts"]
    fw = opts["framework"]
    models = [(n, s) for n, s in case["models"]]
    probe = case.get("probe")
    a = analysis.Analysis(models, opts)
    wit = []

    def W(mech, msg, **kw):
        if len(wit) < 6:
            wit.append(dict({"property": PROP, "mechanism": probe or mech, "msg": msg[:500]}, **kw))

    try:
        if not a.generate():
            w = a.w[0]
            if probe or "base.py:prepare_label" in w["mechanism"] or "prepare_label" in w["mechanism"]:
                W("label-preparation-raises", w["msg"])
                return {"status": "violated", "witnesses": wit, "counters": {}, "nontrivial": True, "digest": digest(case)}
            return {"status": "outside", "why": "generation raised (C01 reports it): " + w["mechanism"], "witnesses": [], "counters": {}}
        loaded = a.load()
        try:
            a.c03()
        except (SyntaxError, ValueError):
            pass  # text that does not parse / is not encodable source: reported by load()
        c03w = [c03.refine(w, case) for w in a.w if w["property"] == "C03"]
        naming = [w for w in c03w if w["mechanism"] in NAMING_ROOT]
        if not loaded:
            if naming and not probe:
                return {"status": "outside", "why": "module does not load because of a naming defect reported by C03: " + naming[0]["mechanism"],
                        "witnesses": [], "counters": {"outside_naming_defect": 1}}
            lf = [w for w in c03w if w["mechanism"].startswith(("load-failure", "annotation-unresolvable"))]
            under = underscore_labels(a.run.registry, opts)
            under_cls = [m.name for m in a.run.registry.models if str(m.name).startswith("_")]
            if lf and ((under and fw == "attrs" and "attrs generated methods" in lf[0]["msg"]) or
                       (under_cls and any(_nfkc(repr(str(n))[1:-1]) in _nfkc(lf[0]["msg"]) for n in under_cls))):
                # attrs strips the leading underscore of a private attribute for its __init__ argument: '_0x' -> '0x'
                W("leading-underscore-label", f"keys {under!r:.100} / classes {under_cls!r:.60} get labels starting with an underscore (attrs strips it from __init__ "
                                              f"arguments; '__x' inside a class body is name-mangled): {lf[0]['msg']}")
            else:
                W("module-does-not-load:" + (lf[0]["mechanism"].split(":")[-1] if lf else "?"), (lf[0]["msg"] if lf else "module does not load"))
            return {"status": "violated", "witnesses": wit, "counters": {}, "nontrivial": True, "digest": digest(case)}
        a.class_maps()
        reg = a.run.registry
        _names = [c["name"] for c in mme.census(a.code)["classes"]]
        dup_names = {n for n in _names if _names.count(n) > 1}
        n_keys = n_renamed = 0
        for ix, m in reg.models_map.items():
            info = a.info_by_index.get(ix)
            if m.name in dup_names:
                continue  # two classes share this name (reported below from the census); its fields cannot be attributed
            if info is None:
                if not naming:
                    W("class-not-found", f"no unique class for model {m.name!r}")
                continue
            fields = list(info.fields.values())
            names = [f.name for f in fields]
            for key, meta_t in m.type.items():
                if fw in ("pydantic", "sqlmodel") and str(meta_t) in ("NoneType", "Unknown"):
                    continue
                n_keys += 1
                hits = [f for f in fields if f.orig == key]
                if len(hits) != 1:
                    others = sorted(f.orig for f in fields)
                    label = a.gens[ix].convert_field_name(key)
                    if label.startswith("_") and fw in ("pydantic", "sqlmodel") and not hits:
                        W("leading-underscore-label", f"class {info.qualname}: key {key!r} gets label {label!r}; pydantic ignores underscore attributes, the field is lost", key=key)
                        continue
                    if label.startswith("_") and sum(1 for k2 in m.type if a.gens[ix].convert_field_name(k2) == label) > 1:
                        # the same listed finding: keys whose label starts with an underscore (a stripped leading '-', '#', ' ' before '_', or a
                        # leading 0, which is spelled as an empty word plus '_') - here two of them share the label
                        W("leading-underscore-label", f"class {info.qualname}: key {key!r} gets label {label!r}, which another key of the object gets as well", key=key)
                        continue
                    W("key-not-recoverable", f"class {info.qualname}: key {key!r} is attached to {len(hits)} fields (originals found: {others!r:.200})", key=key)
                    continue
                f = hits[0]
                if f.name != key:
                    n_renamed += 1
                    if not f.orig_explicit:
                        W("renamed-without-original", f"class {info.qualname}: field {f.name!r} differs from key {key!r} but carries no alias/metadata", key=key)
                if not f.name.isidentifier() or keyword.iskeyword(f.name):
                    W("invalid-field-name", f"field {f.name!r} for key {key!r}", key=key)
            expected_fields = sum(1 for k, t in m.type.items() if not (fw in ("pydantic", "sqlmodel") and str(t) in ("NoneType", "Unknown")))
            if len(fields) != expected_fields and not any(w["mechanism"] in ("leading-underscore-label", "folded-equal-keys") for w in wit):
                W("field-count-differs", f"class {info.qualname} has {len(fields)} fields for {expected_fields} keys {sorted(m.type)!r:.200}")
        # the keys as they occur in the sample documents (the registry could have altered them): replay the samples structurally
        if not wit and not dup_names:
            try:
                a.c01_c02(want_c02=False)
                for w in a.w:
                    if w["property"] == "C01" and w["mechanism"] in ("unmapped-key", "key-collision"):
                        W("sample-key-not-recoverable", w["msg"])
            except Exception as e:
                if type(e).__name__ == "CaseTimeout":
                    raise
        # class names: valid, distinct, not colliding with imports -> from the C03 census of the same module
        for w in c03w:
            if w["mechanism"] in ("invalid-class-name", "duplicate-class-name:raw", "duplicate-class-name:sanitised",
                                  "name-shadows-import:documented-reserved-name") or \
                    (w["mechanism"] == "name-shadows-import" and w.get("what") == "class"):
                W("class-" + w["mechanism"], w["msg"])
        return {"status": "violated" if wit else "held", "witnesses": wit, "nontrivial": n_renamed >= 1, "digest": digest(case),
                "counters": {"keys_checked": n_keys, "renamed_keys": n_renamed, "fw_" + fw: 1,
                             "unicode_" + ("on" if opts["convert_unicode"] else "off"): 1}}
    finally:
        a.close()


def main():
    cases = gen_cases_for(seed(), N[tier()])
    v = Verdict(PROP, "exploration",
                "objects with 1-6 keys drawn from the key-style pools (snake, camel, kebab, Pascal, digits, caps, keywords, builtins, typing "
                "names, framework-reserved names, punctuation incl. quotes/backslashes, non-ASCII cased scripts, plural pairs) and random "
                "strings over a hostile alphabet, filtered to the documented domain (>=1 ASCII-transliterable letter, pairwise distinct "
                "after folding, not starting with underscore/digit), as scalar- and object-valued keys x convert_unicode on/off x "
                "pydantic/sqlmodel/attrs+meta/dataclasses+meta x flat/nested; 5 out-of-domain finding probes. non-trivial = >=1 key whose "
                "field name differs from it",
                ["modules that do not load because of a naming defect that C03 reports (shadowed import, framework-reserved name) are "
                 "counted 'outside' here so one defect is not reported under two ids"])
    results, infra = run_shards(PROP, cases, timeout_per_case=8)
    v.infra = infra
    for c, r in zip(cases, results):
        v.add(c, r, sample_view={"samples": c["models"][0][1][:1], "framework": c["opts"]["framework"], "convert_unicode": c["opts"]["convert_unicode"]})
    return v.finish(floor_nontrivial=100, monitors_required=("keys_checked", "renamed_keys", "unicode_on", "unicode_off"))
