"""C12 - flat and nested layouts describe the same models (differential class-table comparison + placement check)."""
import ast

from .. import gen
from ..common import Verdict, digest, rng_for, run_shards, seed, tier

PROP = "C12"
N = {"quick": 8000, "thorough": 120000}


def tree_samples(rng, twins=False):
    used = set()

    def fresh(n):
        ks = []
        while len(ks) < n:
            k = rng.choice(gen.OBJ_KEYS)
            if gen.fold(k) + str(len(used)) in used:
                continue
            # distinct key per position keeps every model's key set (and name) distinct -> tree-shaped graph
            k2 = f"{k}{len(used)}" if rng.random() < 0.7 or any(gen.fold(k) == gen.fold(u.rstrip('0123456789')) for u in used) else k
            if k2 in used:
                continue
            used.add(k2)
            ks.append(k2)
        return ks

    def obj(d):
        o = {}
        for k in fresh(rng.randint(1, 4)):
            r = rng.random()
            if d > 0 and r < 0.4:
                o[k] = obj(d - 1)
            elif d > 0 and r < 0.55:
                o[k] = [obj(d - 1)]
            elif r < 0.65:
                o[k] = rng.choice([[1, 2], ["a"], [], None])
            else:
                o[k] = rng.choice([1, 2.5, True, "s", "red", "1", "2018-01-02", None])
        if rng.random() < 0.2:
            # a scalar field whose key needs an alias / metadata with awkward characters (quotes, separators, non-ASCII)
            hk = rng.choice(gen.KEY_STYLES["punct"] + gen.KEY_STYLES["nonascii"]) + str(len(used))
            if hk not in o and hk[0] not in "_0123456789$@#":
                used.add(hk)
                o[hk] = rng.choice([1, "s"])
        return o

    first = obj(rng.choice([1, 2, 3, 3]))
    if twins:
        # two sibling sub-objects with identical fields (kept apart only by a number-only merge policy)
        leaf = {"lat": 1.5, "lon": 2.5} if rng.random() < 0.5 else {f"t{len(used)}": 1, "label": "s"}
        a, b = fresh(2)
        host = first
        if rng.random() < 0.5:
            inner = [v for v in first.values() if isinstance(v, dict)]
            host = rng.choice(inner) if inner else first
        host[a] = dict(leaf)
        host[b] = dict(leaf) if rng.random() < 0.7 else [dict(leaf)]
    if rng.random() < 0.12:
        # a model and its own descendant whose class names coincide only after label conversion (Café / Cafe, Größe / Grosse)
        n = len(used)
        a, b = rng.choice([("café", "cafe"), ("größe", "grosse"), ("naïve", "naive"), ("a b", "ab"), ("list", "list_")])
        first[f"{a}{n}"] = {f"{b}{n}": {"v": 1, f"w{n}": "s"}, f"n{n}": 2}
        used.update({f"{a}{n}", f"{b}{n}"})
    samples = [first]
    if rng.random() < 0.5:
        samples.append({k: v for k, v in first.items() if rng.random() < 0.7} or dict(first))
    return samples


def chain_samples(rng):
    """one object chain of 30-96 levels with a distinct key per level (CPython limits the nested layout to <100 levels)"""
    d = rng.choice([30, 60, 91, 93, 96])
    v = {"leaf": rng.choice([1, "s", [1]])}
    for lvl in reversed(range(d)):
        v = {f"node{lvl}": v, "n": lvl} if lvl % 7 else {f"node{lvl}": v}
    return [v]


def gen_cases_for(seed_, n):
    cases = []
    for i in range(n):
        rng = rng_for(PROP, seed_, i)
        if i % 250 == 9:
            samples = chain_samples(rng)
            opts = gen.options(rng, samples, frameworks=["base", "pydantic", "attrs", "dataclasses", "sqlmodel"], allow_dict_opts=False)
            opts["merge"] = []
        elif i % 4 == 3:
            jc = gen.json_case(rng)  # arbitrary graphs: "exactly once in flat" clause; trees are found among them too
            samples = jc["samples"]
            opts = gen.options(rng, samples, frameworks=["base", "pydantic", "attrs", "dataclasses"])
        else:
            twins = rng.random() < 0.25
            samples = tree_samples(rng, twins=twins)
            opts = gen.options(rng, samples, frameworks=["base", "pydantic", "attrs", "dataclasses", "sqlmodel"], allow_dict_opts=False)
            opts["merge"] = rng.choice([[["exact"]], [["exact"]], [["percent", 1.0]], [["number", 50]], opts["merge"]])
            if twins:
                opts["merge"] = [["number", rng.choice([10, 50])]]
        # every second case renders each layout from its own, fresh inference run (as two CLI invocations do)
        cases.append({"i": i, "models": [["Root", samples]], "opts": opts, "fresh_nested": i % 2 == 1})
    return cases


def table_view(tab, by_cls, oracle):
    out = {}
    for info in tab.values():
        out.setdefault(info.name, []).append({n: (oracle.norm_t(f.ann, by_cls), f.default_kind, f.orig, f.orig_explicit)
                                              for n, f in info.fields.items()})
    return out


def run_case(case):
    from .. import driver, mme, oracle
    opts = case["opts"]
    fw = opts["framework"]
    models = [(n, s) for n, s in case["models"]]
    try:
        run = driver.infer(models, opts)
    except Exception as e:
        if type(e).__name__ == "CaseTimeout":
            raise
        return {"status": "outside", "why": "generation raised (C01 reports it)", "witnesses": [], "counters": {}}
    tree = driver.is_tree(run.registry)
    nmodels = len(run.registry.models_map)
    run_n = run
    wit = []

    def W(mech, msg):
        if len(wit) < 6:
            wit.append({"property": PROP, "mechanism": mech, "msg": msg[:600]})

    root_model = run.root_ptrs[0].type
    try:
        flat_code = driver.render(run, opts, flat=True)
        if case.get("fresh_nested"):
            run_n = driver.infer(models, opts)
        nested_code = driver.render(run_n, opts, flat=False)
    except Exception as e:
        if type(e).__name__ == "CaseTimeout":
            raise
        return {"status": "outside", "why": f"rendering raised {type(e).__name__} (C01/C03 report it)", "witnesses": [], "counters": {}}
    root_name = root_model.name
    # every model exactly once (flat: all inputs; nested: tree-shaped graphs)
    try:
        cf = mme.census(flat_code)
        cn = mme.census(nested_code)
    except (SyntaxError, ValueError):
        return {"status": "outside", "why": "emitted text does not parse (C03 reports it)", "witnesses": [], "counters": {}}
    expected_names = sorted(m.name for m in run.registry.models)
    if sorted(c["name"] for c in cf["classes"]) != expected_names:
        W("flat-model-not-exactly-once", f"flat layout defines {sorted(c['name'] for c in cf['classes'])} for models {expected_names}")
    cnt = {"flat_modules": 1, "models": nmodels, "tree_graphs": int(tree), "layouts_from_separate_runs": int(bool(case.get("fresh_nested")))}
    dup_names = {n for n in expected_names if expected_names.count(n) > 1}  # (C03 reports those); placement is judged for unambiguous names
    cnt["classes_with_ambiguous_name"] = len(dup_names)
    first_cls = next((n for n in cf["tree"].body if isinstance(n, ast.ClassDef)), None)
    if tree:
        if first_cls is None or first_cls.name != root_name:
            W("flat-root-not-first", f"flat layout starts with class {getattr(first_cls, 'name', None)!r}, root model is {root_name!r}")
        expected_nested = sorted(m.name for m in run_n.registry.models)
        if sorted(c["name"] for c in cn["classes"]) != expected_nested:
            W("nested-model-not-exactly-once", f"nested layout defines {sorted(c['name'] for c in cn['classes'])} for models {expected_nested}")
    if tree:
        # placement from the ast census (does not need the module to load)
        by_name0 = {m.name: m for m in run_n.registry.models}
        for c in cn["classes"]:
            m = by_name0.get(c["name"])
            if m is None or c["name"] in dup_names:
                continue
            parents = {p.parent.name for p in m.pointers if p.parent is not None}
            encl = c["scope"][-1] if c["scope"] else None
            if parents and encl not in parents:
                W("class-not-inside-its-referrer", f"class {'.'.join(c['scope'] + (c['name'],))} is referenced from {sorted(parents)} but placed in {encl or '<module>'}")
            if not parents and encl is not None:
                W("root-class-nested", f"root model {c['name']} is nested inside {encl}")
    if not tree:
        return {"status": "violated" if wit else "held", "witnesses": wit, "counters": cnt, "nontrivial": False, "digest": digest(case)}
    # differential comparison of the loaded modules
    mods = []
    try:
        try:
            mf = mme.load(flat_code)
            mods.append(mf)
            mn = mme.load(nested_code)
            mods.append(mn)
            tf = mme.table(mf, fw)
            tn = mme.table(mn, fw)
        except Exception as e:
            if type(e).__name__ == "CaseTimeout":
                raise
            cnt["load_failed"] = 1
            return {"status": "outside", "why": f"a layout does not load ({type(e).__name__}); C03 reports it", "witnesses": wit, "counters": cnt} \
                if not wit else {"status": "violated", "witnesses": wit, "counters": cnt, "nontrivial": True, "digest": digest(case)}
        vf = table_view(tf, {i.cls: i for i in tf.values()}, oracle)
        vn = table_view(tn, {i.cls: i for i in tn.values()}, oracle)
        cnt["classes_compared"] = len(vf)
        cnt["fields_compared"] = sum(len(x) for lst in vf.values() for x in lst)
        if set(vf) != set(vn):
            W("class-in-one-layout-only", f"flat has {sorted(vf)}, nested has {sorted(vn)}")
        for name in sorted(set(vf) & set(vn)):
            if name in dup_names:
                continue  # two module-level classes of one name: the flat module keeps only the later one (C03 reports the duplicate)
            if vf[name] != vn[name]:
                a, b = vf[name][0], vn[name][0]
                diff = [k for k in set(a) | set(b) if a.get(k) != b.get(k)]
                W("class-differs-between-layouts", f"class {name}: fields {sorted(diff)} differ: flat {[a.get(k) for k in sorted(diff)]!r:.250} "
                                                   f"nested {[b.get(k) for k in sorted(diff)]!r:.250}")
        # placement: each class sits inside the class that references it
        by_name = {m.name: m for m in run_n.registry.models}
        depth = 0
        for info in tn.values():
            m = by_name.get(info.name)
            depth = max(depth, info.qualname.count("."))
            if m is None or info.name in dup_names:
                continue
            parents = {p.parent.name for p in m.pointers if p.parent is not None}
            encl = info.qualname.split(".")[-2] if "." in info.qualname else None
            depth = max(depth, info.qualname.count("."))
            if not parents:
                if encl is not None:
                    W("root-class-nested", f"root model {info.name} is nested inside {encl}")
            elif encl not in parents:
                W("class-not-inside-its-referrer", f"class {info.qualname} is referenced from {sorted(parents)} but placed in {encl or '<module>'}")
        cnt["nesting_depth_max"] = depth
        return {"status": "violated" if wit else "held", "witnesses": wit, "counters": cnt,
                "nontrivial": nmodels >= 3 and depth >= 2, "digest": digest(case)}
    finally:
        for m in mods:
            mme.unload(m)


def main():
    cases = gen_cases_for(seed(), N[tier()])
    v = Verdict(PROP, "exploration",
                "3/4 of the cases: inputs built to give tree-shaped model graphs (distinct key sets per position, depth<=3, exact-like merge "
                "policies), 1/4 arbitrary schema-derived inputs (shared / recursive graphs) x frameworks; both layouts rendered from one "
                "registry (even cases) or each from its own fresh inference run (odd cases), loaded, and their class tables compared by class name (annotations name-normalised, defaults, originals); placement "
                "checked against the referrer from the registry; flat: root first, each model exactly once (all inputs). Tree precondition "
                "computed from the registry; non-tree graphs are only judged for flat completeness. non-trivial = tree with >=3 models and "
                "nesting depth >=2",
                ["even cases render both layouts from one registry in the order flat, nested; odd cases infer twice and render one layout each",
                 "classes whose converted name is shared by two models (a listed C03 finding) are not compared and not judged for placement"])
    results, infra = run_shards(PROP, cases, timeout_per_case=8)
    v.infra = infra
    for c, r in zip(cases, results):
        v.add(c, r, sample_view={"samples": c["models"][0][1][:2], "framework": c["opts"]["framework"], "merge": c["opts"]["merge"]})
    return v.finish(floor_nontrivial=100, monitors_required=("flat_modules", "tree_graphs", "classes_compared", "fields_compared", "layouts_from_separate_runs"))
