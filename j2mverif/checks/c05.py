"""C05 - models are merged exactly along the configured similarity relation (merge monitor)."""
import itertools

from .. import gen
from ..common import Verdict, digest, rng_for, run_shards, seed, tier

PROP = "C05"


def graph_cases(tier_, seed_):
    cases = []
    for n in range(1, 6):
        npairs = n * (n - 1) // 2
        for mask in range(1 << npairs):
            for layout in ("siblings", "chain"):
                cases.append({"kind": "graph", "n": n, "mask": mask, "layout": layout})
    rng = rng_for(PROP, "n6", seed_)
    if tier_ == "thorough":
        masks = range(1 << 15)
    else:
        masks = rng.sample(range(1 << 15), 2000)
    for mask in masks:
        cases.append({"kind": "graph", "n": 6, "mask": mask, "layout": "siblings" if mask % 2 else "chain"})
    if tier_ == "thorough":
        for mask in rng.sample(range(1 << 21), 20000):
            cases.append({"kind": "graph", "n": 7, "mask": mask, "layout": "siblings" if mask % 2 else "chain"})
    return cases


def random_cases(tier_, seed_):
    n = 3000 if tier_ == "quick" else 80000
    cases = []
    for i in range(n):
        rng = rng_for(PROP, "rnd", seed_, i)
        jc = gen.json_case(rng, profile=rng.choice(["merge", "merge", "general", "small"]))
        opts = gen.options(rng, jc["samples"], frameworks=["base"])
        # thresholds on both sides of every boundary
        r = rng.random()
        if r < 0.5:
            opts["merge"] = [["percent", rng.choice([0.2, 0.25, 1 / 3, 0.4, 0.5, 0.6, 2 / 3, 0.75, 0.8, 1.0])]]
        elif r < 0.7:
            opts["merge"] = [["number", rng.choice([1, 2, 3, 4])]]
        elif r < 0.8:
            opts["merge"] = [["exact"]]
        else:
            opts["merge"] = [["percent", rng.choice([0.5, 0.75, 1.0])], ["number", rng.choice([2, 3, 4])]]
        cases.append({"kind": "random", "i": i, "models": [["Root", jc["samples"]]], "opts": opts})
    # pairs sitting exactly on / just beside a comparator boundary (thresholds as the CLI computes them: float(n) / 100)
    nb = 600 if tier_ == "quick" else 6000
    for i in range(nb):
        rng = rng_for(PROP, "boundary", seed_, i)
        pct = rng.choice([50, 60, 70, 75, 80, 90, 95, 32, 55, 56, 68, 92, 25, 40, 20, 10, 99, 100, 33, 66, 67])
        den = rng.choice([2, 3, 4, 5, 8, 10, 12, 20, 25])
        num = round(pct * den / 100)
        shared = max(0, min(den, num + rng.choice([0, 0, 0, -1, 1])))
        union = den
        only_a = rng.randint(0, union - shared)
        only_b = union - shared - only_a
        ka = [f"s{j}" for j in range(shared)] + [f"a{j}" for j in range(only_a)]
        kb = [f"s{j}" for j in range(shared)] + [f"b{j}" for j in range(only_b)]
        if not ka or not kb:
            continue
        sample = {"left": {k: 1 for k in ka}, "right": {k: "x" for k in kb}, "third": {"zz": 1}}
        if rng.random() < 0.3:
            sample["more"] = [{k: 1 for k in ka[: max(1, len(ka) - 1)]}]
        policy = [["percent", float(pct) / 100]] if rng.random() < 0.7 else [["number", shared + rng.choice([0, 1])]]
        if rng.random() < 0.15:
            policy.append(["number", max(1, shared + rng.choice([0, 1, 2]))])
        cases.append({"kind": "random", "i": n + i, "boundary": True, "models": [["Root", [sample]]],
                      "opts": {"framework": "base", "flat": True, "merge": policy, "max_literals": 10, "convert_unicode": True,
                               "registry": ["IntString", "FloatString", "BooleanString"], "dkf": [], "dkr": []}})
    # key sets that a joined spelling cannot tell apart: {a, b} next to {"a<sep>b"}, {"x<sep>y", z} next to {x, "y<sep>z"}; the
    # relation is defined on the key *sets*
    ns = 300 if tier_ == "quick" else 4000
    for i in range(ns):
        rng = rng_for(PROP, "sep", seed_, i)
        sep = rng.choice([",", ", ", "|", " ", ";", ":", "/", "\n", "\t", ".", "-", "_", "\x00", "','", "', '", "+"])
        pool = [["a", "b"], ["a", "b"], ["a" + sep + "b"], ["x" + sep + "y", "z"], ["x", "y" + sep + "z"], ["x", "y" + sep + "z"], ["x", "y", "z"],
                ["a" + sep, "b"], ["a", sep + "b"], ["a" + sep + "b", "c"], ["a", "b" + sep + "c"], ["a", "b", "c"]]
        chosen = [rng.choice(pool) for _ in range(rng.randint(3, 7))]
        sample = {f"m{j}": {k: rng.choice([1, "x", 2.5, True]) for k in ks} for j, ks in enumerate(chosen)}
        policy = rng.choice([[["exact"]], [["percent", 0.7], ["number", 10]], [["percent", 0.7]], [["percent", 0.5]], [["percent", 1.0]], [["number", 2]]])
        cases.append({"kind": "random", "i": n + nb + i, "separators": True, "models": [["Root", [sample]]],
                      "opts": {"framework": "base", "flat": True, "merge": policy, "max_literals": 10, "convert_unicode": True,
                               "registry": ["IntString", "FloatString", "BooleanString"], "dkf": [], "dkr": []}})
    return cases


def setup_worker():
    global MON
    from .. import monitors
    MON = monitors.MergeMonitor()
    MON.install()


def run_case(case):
    from .. import driver, monitors
    from json_to_models.generator import MetadataGenerator
    from json_to_models.registry import ModelRegistry
    MON.violations.clear()
    before = dict(MON.stats)
    if case["kind"] == "graph":
        n = case["n"]
        pairs = list(itertools.combinations(range(n), 2))
        edges = [pairs[i] for i in range(len(pairs)) if case["mask"] >> i & 1]
        if case["layout"] == "siblings":
            sample = {f"m{i}": {f"u{i}": i, f"v{i}": "s"} for i in range(n)}
        else:  # chain: model i+1 nested in model i (merging parent and child yields recursive models)
            sample = None
            for i in reversed(range(n)):
                inner = {f"u{i}": i, f"v{i}": "s"}
                if sample is not None:
                    inner[f"c{i}"] = sample
                sample = inner
            sample = {"m0": sample}
        cmp_ = monitors.TableCmp(edges)
        g = MetadataGenerator()
        reg = ModelRegistry(cmp_)
        reg.process_meta_data(g.generate(sample), model_name="Root")
        try:
            reg.merge_models(g)
            if case["mask"] % 5 == 0:
                reg.merge_models(g)  # a second call on the same registry is observed (and judged) like the first
            reg.generate_names()
        except Exception as e:
            MON.violations.append((f"merge-raised:{type(e).__name__}", f"merge_models/generate_names raised {type(e).__name__}: {e}"))
    else:
        try:
            run = driver.infer([(n_, s) for n_, s in case["models"]], case["opts"])
            if case.get("i", 0) % 5 == 0:
                run.registry.merge_models(run.generator)
        except ZeroDivisionError:
            return {"status": "outside", "why": "both key sets empty (0/0 in the percent comparator)", "witnesses": [], "counters": {}}
        except Exception as e:
            from ..analysis import exc_site
            if exc_site(e)[0] != "registry.py":
                return {"status": "outside", "why": "generation raised outside the registry (reported by C01)", "witnesses": [], "counters": {}}
            MON.violations.append((f"merge-raised:{type(e).__name__}", f"merge_models raised {type(e).__name__}: {e}"))
    delta = {k: MON.stats[k] - before.get(k, 0) for k in MON.stats}
    wit = [{"property": PROP, "mechanism": k, "msg": m[:600]} for k, m in MON.violations[:6]]
    if not delta["calls"]:
        return {"status": "inconclusive", "why": "merge monitor was not reached", "witnesses": [], "counters": delta}
    return {"status": "violated" if wit else "held", "witnesses": wit, "counters": delta,
            "nontrivial": delta["nonclique_groups"] >= 1, "digest": digest(case)}


def main():
    cases = graph_cases(tier(), seed()) + random_cases(tier(), seed())
    v = Verdict(PROP, "exploration",
                "(a) every similarity graph on n<=5 labelled models (both a sibling and a chain-nested realisation), n=6 sampled in "
                "quick / complete in thorough (+ sampled n=7), realised through a table-driven comparator on a registry built by the "
                "real generate+process_meta_data; (b) random shape-family inputs with real comparators and thresholds on both sides "
                "of the boundaries. The monitor wraps ModelRegistry.merge_models (snapshot before, union-find reference partition, "
                "registry/pointer walk after). non-trivial = >=1 merge component of size >=3 that is not a clique",
                ["reference semantics of the three comparators re-implemented from the documentation",
                 "inputs where both key sets are empty (0/0) are outside the workload"])
    results, infra = run_shards(PROP, cases, timeout_per_case=8)
    v.infra = infra
    ngraph = 0
    for c, r in zip(cases, results):
        v.add(c, r, sample_view=c if c["kind"] == "graph" else {"samples": c["models"][0][1][:2], "merge": c["opts"]["merge"]})
        ngraph += c["kind"] == "graph"
    if tier() == "thorough":
        # the repository's own test suite as one more workload, run under the merge monitor (pytest plugin)
        import re
        import subprocess
        from ..common import PY, REPO, VERIF, child_env
        r = subprocess.run([PY, "-m", "pytest", "-q", "-p", "no:cacheprovider", "-p", "j2mverif.pytest_plugin", "-x", "--timeout=900"],
                           cwd=REPO, env=child_env(), capture_output=True, text=True, timeout=3600)
        m = re.search(r"j2mverif monitors: merge_models calls=(\d+) groups=(\d+) ptrs_checked=(\d+) violations=(\d+)", r.stdout)
        case = {"kind": "repo-test-suite-under-monitor"}
        if not m:
            v.add(case, {"status": "inconclusive", "why": "monitor summary line not found in the pytest output", "witnesses": []})
        else:
            calls, groups, ptrs, nviol = map(int, m.groups())
            wit = [{"property": PROP, "mechanism": "repo-suite:" + ln.split(":")[0].split()[-1], "msg": ln.strip()[:500]}
                   for ln in r.stdout.split("\n") if ln.strip().startswith("MERGE-MONITOR")]
            v.add(case, {"status": "violated" if wit else "held", "witnesses": wit[:5], "nontrivial": True, "digest": "repo-suite",
                         "counters": {"repo_suite_merge_calls": calls, "repo_suite_groups": groups, "repo_suite_ptrs_checked": ptrs}})
    v.extra["graph_cases"] = ngraph
    v.extra["graphs_n_le_5_exhaustive"] = True
    v.extra["graphs_n6_exhaustive"] = tier() == "thorough"
    return v.finish(floor_nontrivial=100, monitors_required=("calls", "groups_ge3", "nonclique_groups", "ptrs_checked", "untouched_checked"))
