"""C02 - inferred types are tight (tightness monitor over the routed sample values)."""
from . import pipeline_common as pc
from ..common import Verdict, run_shards, seed, tier

PROP = "C02"
N = {"quick": 15000, "thorough": 200000}
# renderings where the IR is visible in the annotation (pseudo-types under their own names);
# pydantic/sqlmodel are run for the Optional/default cross-check only
FRAMEWORKS = ["base", "dataclasses", "attrs", "base", "dataclasses", "pydantic", "sqlmodel"]


def gen_cases_for(seed_, n):
    cases = pc.gen_cases(PROP, tier(), seed_, n, frameworks=FRAMEWORKS)
    for c in cases:
        if c["opts"]["framework"] in ("base", "dataclasses") and c["i"] % 3:
            c["opts"]["max_literals"] = 16  # literal sets visible
    return cases


DEEP_LEAVES = [1, 2.5, "s", True, [1, 2.5], {"a": 1}, [{"a": 1}]]


def deep_cases(seed_, n):
    """documents nested deeper than any annotation CPython can parse (200 brackets): judged on the IR, no module is loaded"""
    from ..common import rng_for
    out = []
    for j in range(n):
        rng = rng_for(PROP + "-deep", seed_, j)
        d = rng.choice([60, 150, 199, 200, 201, 230, 300])
        leaves = rng.sample(DEEP_LEAVES[:4], rng.randint(1, 2)) if rng.random() < 0.6 else [rng.choice(DEEP_LEAVES[4:])]
        samples = []
        for leaf in leaves:
            v = [leaf]
            for _ in range(d - 1):
                v = [v]
            samples.append({"deep": v, "k": 1})
        out.append({"i": 10 ** 6 + j, "profile": "deep_ir", "depth": d, "models": [["Root", samples]],
                    "opts": {"framework": "base", "flat": True, "merge": [], "max_literals": 10, "convert_unicode": True,
                             "registry": ["IntString", "FloatString", "BooleanString"], "dkf": [], "dkr": []}})
    return out


def run_deep(case):
    """walks the inferred type of the 'deep' field without recursion: every level of the (never empty) sample lists must be a list
    type whose element type is the next level; Any (Unknown) may not appear, the containers were never empty"""
    from json_to_models.dynamic_typing import DList, DOptional, DUnion, Unknown
    from .. import driver
    try:
        run = driver.infer([(n, s) for n, s in case["models"]], case["opts"])
    except RecursionError:
        return {"status": "outside", "why": "inference raised RecursionError (documents this deep are outside what the library handles)", "witnesses": [],
                "counters": {"deep_recursion_errors": 1}}
    t = run.root_ptrs[0].type.type["deep"]
    wit = []
    levels = 0
    for lvl in range(case["depth"]):
        if isinstance(t, DOptional):
            wit.append({"property": PROP, "mechanism": "deep-list-optional-without-null", "msg": f"level {lvl} of a {case['depth']}-deep list is Optional, no null was seen"})
            break
        if t is Unknown or (isinstance(t, DUnion) and any(x is Unknown for x in t.types)):
            wit.append({"property": PROP, "mechanism": "any-for-nonempty-container",
                        "msg": f"level {lvl} of a {case['depth']}-deep list (never empty at any level) is typed Any: {str(t)[:80]}"})
            break
        if not isinstance(t, DList):
            wit.append({"property": PROP, "mechanism": "deep-list-level-not-a-list", "msg": f"level {lvl} of a {case['depth']}-deep list is {str(t)[:80]}"})
            break
        t = t.type
        levels += 1
    else:
        if t is Unknown:
            wit.append({"property": PROP, "mechanism": "any-for-nonempty-container", "msg": f"the innermost element of a {case['depth']}-deep list is typed Any"})
    return {"status": "violated" if wit else "held", "witnesses": wit, "counters": {"deep_ir_cases": 1, "deep_ir_levels": levels},
            "nontrivial": True}


def run_case(case):
    if case.get("profile") == "deep_ir":
        return run_deep(case)
    r = pc.run_case(case, PROP, props=("C01", "C02"))
    c = r.get("counters") or {}
    r["nontrivial"] = r["status"] in ("held", "violated") and (c.get("orc_optionals", 0) + c.get("orc_members", 0)) >= 3 \
        and c.get("orc_objects", 0) >= 3
    return r


def main():
    cases = gen_cases_for(seed(), N[tier()])
    cases += deep_cases(seed(), 60 if tier() == "quick" else 600)
    v = Verdict(PROP, "exploration",
                "same workload as C01 rendered mostly as base/dataclasses/attrs (pseudo-types and Literal sets visible); per "
                "position of the loaded class graph the multiset of sample values routed there must justify every Optional, "
                "union member, list/dict element type, Literal member and Any; non-trivial = >=3 routed objects and >=3 "
                "optional/union-member positions judged. Plus 60/600 documents nested 60-300 lists deep (beyond what an annotation can "
                "spell): the inferred IR type is walked level by level, no Any and no Optional may appear",
                ["judged only on executions whose C01 acceptance passed (otherwise 'blocked')",
                 "an object is routed to every union member that accepts it (lenient: ambiguity can only add justification)",
                 "pydantic/sqlmodel renderings: only the Optional rule is judged (pseudo-types are rendered as actual types)"])
    results, infra = run_shards(PROP, cases, timeout_per_case=8)
    v.infra = infra
    for c, r in zip(cases, results):
        if r["status"] == "blocked":
            v.counters["blocked_by_c01_or_load"] += 1
            r = dict(r, status="outside")
        v.add(c, r, sample_view={"samples": c["models"][0][1][:3], "opts": c["opts"]})
    return v.finish(floor_nontrivial=50, monitors_required=("orc_positions", "orc_optionals", "orc_members", "orc_literals", "orc_anys", "deep_ir_levels"))
