"""C02 - inferred types are tight (tightness monitor over the routed sample values)."""
from . import pipeline_common as pc
from ..common import Verdict, run_shards, seed, tier

PROP = "C02"
N = {"quick": 15000, "thorough": 200000}
# renderings where the IR is visible in the annotation (pseudo-types under their own names);
# pydantic/sqlmodel are run for the Optional/default cross-check only
FRAMEWORKS = ["base", "dataclasses", "attrs", "base", "dataclasses", "pydantic", "sqlmodel"]


def gen_cases_for(seed_, n):
    cases = pc.gen_cases(PROP, tier(), seed_, n, frameworks=FRAMEWORKS)
    for c in cases:
        if c["opts"]["framework"] in ("base", "dataclasses") and c["i"] % 3:
            c["opts"]["max_literals"] = 16  # literal sets visible
    return cases


def run_case(case):
    r = pc.run_case(case, PROP, props=("C01", "C02"))
    c = r.get("counters") or {}
    r["nontrivial"] = r["status"] in ("held", "violated") and (c.get("orc_optionals", 0) + c.get("orc_members", 0)) >= 3 \
        and c.get("orc_objects", 0) >= 3
    return r


def main():
    cases = gen_cases_for(seed(), N[tier()])
    v = Verdict(PROP, "exploration",
                "same workload as C01 rendered mostly as base/dataclasses/attrs (pseudo-types and Literal sets visible); per "
                "position of the loaded class graph the multiset of sample values routed there must justify every Optional, "
                "union member, list/dict element type, Literal member and Any; non-trivial = >=3 routed objects and >=3 "
                "optional/union-member positions judged",
                ["judged only on executions whose C01 acceptance passed (otherwise 'blocked')",
                 "an object is routed to every union member that accepts it (lenient: ambiguity can only add justification)",
                 "pydantic/sqlmodel renderings: only the Optional rule is judged (pseudo-types are rendered as actual types)"])
    results, infra = run_shards(PROP, cases, timeout_per_case=8)
    v.infra = infra
    for c, r in zip(cases, results):
        if r["status"] == "blocked":
            v.counters["blocked_by_c01_or_load"] += 1
            r = dict(r, status="outside")
        v.add(c, r, sample_view={"samples": c["models"][0][1][:3], "opts": c["opts"]})
    return v.finish(floor_nontrivial=50, monitors_required=("orc_positions", "orc_optionals", "orc_members", "orc_literals", "orc_anys"))
