"""C08 - type simplification reaches a stable normal form (normal-form monitor on the IR at the API boundary)."""
import ast
import itertools
import json

from .. import gen
from ..common import Verdict, digest, rng_for, run_shards, seed, tier

PROP = "C08"

# finite universe of depth<=2 JSON values; the IR types are produced by the real type detection from them
UNIVERSE = [
    1, 2.5, True, None, "abc", "x" * 25, "1", "1.5", "true", "2018-01-02", "10:30:00", "2018-01-02T10:30:00",
    [], [None], [1], [1.5], ["a"], ["1"], ["true"], [1, "a"], [None, 1], [1, 2.5], [[1]], [[]], [[None]], [{}],
    [{"k": 1}], [{"k": "a"}], [{"j": 1}], [{"k": 1}, {"j": 1}],
    {}, {"k": 1}, {"k": "a"}, {"k": None}, {"j": 2.5}, {"k": {"z": 1}}, {"k": [1]}, {"k": []}, {"k": 1, "j": "1"}, {"k": "1.5"},
]
FULL = ["IntString", "FloatString", "BooleanString", "IsoDateString", "IsoTimeString", "IsoDatetimeString"]


def gen_cases_for(tier_, seed_):
    cases = []
    idx = range(len(UNIVERSE))
    multisets = [(a,) for a in idx] + list(itertools.combinations_with_replacement(idx, 2))
    triples = list(itertools.combinations_with_replacement(idx, 3))
    rng = rng_for(PROP, "triples", seed_)
    if tier_ == "quick":
        triples = rng.sample(triples, 4000)
    multisets += triples
    for n, ms in enumerate(multisets):
        r = rng_for(PROP, "ms", seed_, n)
        samples = [{"f": UNIVERSE[i], "g": 0} for i in ms]
        if r.random() < 0.3:
            samples.append({"g": 1})  # one sample lacks the field
        r.shuffle(samples)
        cases.append({"kind": "universe", "ms": list(ms), "models": [["Root", samples]],
                      "opts": {"framework": "dataclasses", "flat": True, "merge": r.choice([[["percent", 0.7], ["number", 10]], [["exact"]], [["number", 1]]]),
                               "max_literals": 10, "convert_unicode": True, "registry": FULL if r.random() < 0.7 else FULL[:3],
                               "dkf": ["f"] if r.random() < 0.15 else [], "dkr": [], "post_init_converters": False, "meta": False}})
    # the literal limit crossed by the last literal member, next to a pseudo-typed string and without any long plain string
    for n in range(300 if tier_ == "quick" else 3000):
        r = rng_for(PROP, "cross", seed_, n)
        k = r.choice([14, 15, 15, 16, 16, 17, 18])
        vals = [f"w{j}" for j in range(k)]
        pseudo = r.choice(["1", "2.5", "true", "2018-01-02", "10:30:00"])
        form = r.choice(["scalar", "list", "list_then_one", "two_lists"])
        if form == "scalar":
            seq = vals + [pseudo]
            r.shuffle(seq)
            if r.random() < 0.5:
                seq = [x for x in seq if x != vals[-1]] + [vals[-1]]
            samples = [{"f": x, "g": 0} for x in seq]
        elif form == "list":
            samples = [{"f": vals[:k // 2] + [pseudo], "g": 0}, {"f": vals[k // 2:], "g": 0}]
        elif form == "list_then_one":
            samples = [{"f": vals[:-1], "g": 0}, {"f": [pseudo], "g": 0}, {"f": [vals[-1]], "g": 0}]
        else:
            samples = [{"f": vals[:15] + [pseudo], "g": 0}, {"f": vals[10:], "g": 0}]
        cases.append({"kind": "universe", "ms": [0, 1], "cross": True, "models": [["Root", samples]],
                      "opts": {"framework": "dataclasses", "flat": True, "merge": [["percent", 0.7], ["number", 10]], "max_literals": 17,
                               "convert_unicode": True, "registry": FULL if r.random() < 0.6 else FULL[:3], "dkf": [], "dkr": [],
                               "post_init_converters": False, "meta": False}})
    nrand = 2500 if tier_ == "quick" else 80000
    for i in range(nrand):
        r = rng_for(PROP, "rnd", seed_, i)
        jc = gen.json_case(r)
        cases.append({"kind": "random", "i": i, "models": [["Root", jc["samples"]]], "opts": gen.options(r, jc["samples"])})
    return cases


def setup_worker():
    pass


class NF:
    """recursive normal-form predicate over the IR node classes"""

    def __init__(self, str_registry):
        from json_to_models.dynamic_typing import (DDict, DList, DOptional, DUnion, ModelPtr, Null, StringLiteral,
                                                   StringSerializable, Unknown, BaseType)
        from ..monitors import dump_type
        self.__dict__.update(locals())
        self.errors = []
        self.unions = 0
        self.nodes = 0

    def check(self, t, where):
        D = self
        self.nodes += 1
        if isinstance(t, dict):
            for k, v in t.items():
                self.check(v, f"{where}.{k}")
            return
        if isinstance(t, D.ModelPtr):
            return
        if isinstance(t, D.DOptional):
            if isinstance(t.type, D.DOptional):
                self.errors.append(("optional-in-optional", where, str(t)))
            if t.type is D.Null:
                pass  # Optional[None]: an all-null field missing somewhere; not excluded by the statement
            self.check(t.type, where)
            return
        if isinstance(t, D.DUnion):
            self.unions += 1
            ms = list(t.types)
            if len(ms) == 0:
                self.errors.append(("empty-union", where, str(t)))
            if len(ms) == 1:
                self.errors.append(("single-member-union", where, str(t)))
            dumps = [repr(D.dump_type(m, lambda mm: mm.index)) for m in ms]
            if len(set(dumps)) != len(dumps):
                self.errors.append(("duplicate-union-member", where, str(t)))
            if any(isinstance(m, D.DUnion) for m in ms):
                self.errors.append(("nested-union", where, str(t)))
            if any(m is D.Null or isinstance(m, D.DOptional) for m in ms):
                self.errors.append(("null-in-union", where, str(t)))
            if int in ms and float in ms:
                self.errors.append(("int-next-to-float", where, str(t)))
            has_str = str in ms
            has_lit = any(isinstance(m, D.StringLiteral) for m in ms)
            has_pseudo = any(isinstance(m, type) and issubclass(m, D.StringSerializable) for m in ms)
            if has_str and (has_lit or has_pseudo):
                self.errors.append(("str-with-literal-or-pseudo", where, str(t)))
            for m in ms:
                self.check(m, where + "|")
            return
        if isinstance(t, (D.DList, D.DDict)):
            self.check(t.type, where + "[]")
            return
        if isinstance(t, D.BaseType):
            try:
                for c in t:
                    self.check(c, where + "<>")
            except TypeError:
                pass


def annotation_source_errors(code):
    errs = []
    tree = ast.parse(code)
    n = 0
    for node in ast.walk(tree):
        if isinstance(node, ast.AnnAssign):
            for sub in ast.walk(node.annotation):
                if isinstance(sub, ast.Subscript) and isinstance(sub.value, ast.Name):
                    n += 1
                    name = sub.value.id
                    elts = sub.slice.elts if isinstance(sub.slice, ast.Tuple) else [sub.slice]
                    if name == "Union":
                        if len(elts) == 0:
                            errs.append(("source-empty-union", ast.unparse(sub)))
                        if len(elts) == 1:
                            errs.append(("source-single-member-union", ast.unparse(sub)))
                        d = [ast.dump(e) for e in elts]
                        if len(set(d)) != len(d):
                            errs.append(("source-duplicate-union-member", ast.unparse(sub)))
                        for e in elts:
                            if isinstance(e, ast.Subscript) and isinstance(e.value, ast.Name) and e.value.id in ("Union", "Optional"):
                                errs.append(("source-nested-union", ast.unparse(sub)))
                            if isinstance(e, ast.Constant) and e.value is None:
                                errs.append(("source-none-in-union", ast.unparse(sub)))
                    if name == "Optional":
                        e = elts[0]
                        if isinstance(e, ast.Subscript) and isinstance(e.value, ast.Name) and e.value.id == "Optional":
                            errs.append(("source-optional-in-optional", ast.unparse(sub)))
    return errs, n


def run_case(case):
    from .. import driver
    from ..monitors import dump_type
    opts = case["opts"]
    models = [(n, s) for n, s in case["models"]]
    wit = []
    cnt = {}
    state = {}

    def pre(run):
        # IR as returned by generate()/process_meta_data, before model merging
        nf = NF(run.str_registry)
        for m in run.registry.models:
            nf.check(m.type, f"pre-merge:{m.index}")
        state["pre"] = nf
        # second pass on the not-yet-merged graph: must change nothing (if it does, it is reported; the run continues)
        from ..monitors import dump_type as _dump
        try:
            b = {m.index: repr(_dump(m.type, lambda mm: mm.index)) for m in run.registry.models}
            for m in list(run.registry.models):
                run.generator.optimize_type(m)
            a2 = {m.index: repr(_dump(m.type, lambda mm: mm.index)) for m in run.registry.models}
            state["pre_changed"] = next(((ix, b[ix], a2.get(ix)) for ix in b if b[ix] != a2.get(ix)), None)
        except Exception as e:
            state["pre_raised"] = f"{type(e).__name__}: {e}"

    try:
        run = driver.infer(models, opts, pre_merge_hook=pre)
    except Exception as e:
        if type(e).__name__ == "CaseTimeout":
            raise
        from ..analysis import exc_site
        site = exc_site(e)
        if site[1] in ("_optimize_union", "optimize_type", "merge_field_sets") or site[0] == "complex.py":
            return {"status": "violated", "nontrivial": True, "counters": {}, "digest": digest(case),
                    "witnesses": [{"property": PROP, "mechanism": f"simplification-raises:{type(e).__name__}@{site[1]}",
                                   "msg": f"{type(e).__name__}: {e}"}]}
        return {"status": "outside", "why": f"generation raised outside simplification ({type(e).__name__}@{site[1]}); C01 reports it",
                "witnesses": [], "counters": {}}
    nf = NF(run.str_registry)
    for m in run.registry.models:
        nf.check(m.type, f"{m.name}")
    for stage, x in (("after-generate", state["pre"]), ("after-merge", nf)):
        for kind, where, txt in x.errors[:4]:
            wit.append({"property": PROP, "mechanism": f"{kind}:{stage}", "msg": f"{where}: {txt}"})
    if state.get("pre_changed"):
        ix, b0, a0 = state["pre_changed"]
        wit.append({"property": PROP, "mechanism": "second-pass-changes:after-generate", "msg": f"model {ix}: {b0[:250]} -> {(a0 or '')[:250]}"})
    if state.get("pre_raised"):
        wit.append({"property": PROP, "mechanism": "second-pass-raises:after-generate", "msg": state["pre_raised"]})
    # second pass must be a no-op and must not raise
    before = {m.index: repr(dump_type(m.type, lambda mm: mm.index)) for m in run.registry.models}
    try:
        for m in list(run.registry.models):
            run.generator.optimize_type(m)
        after = {m.index: repr(dump_type(m.type, lambda mm: mm.index)) for m in run.registry.models}
        for ix in before:
            if before[ix] != after.get(ix):
                wit.append({"property": PROP, "mechanism": "second-pass-changes", "msg": f"model {ix}: {before[ix][:250]} -> {after.get(ix, '')[:250]}"})
                break
    except Exception as e:
        if type(e).__name__ == "CaseTimeout":
            raise
        wit.append({"property": PROP, "mechanism": f"second-pass-raises:{type(e).__name__}", "msg": f"{type(e).__name__}: {e}"})
    # emitted annotation source text
    nsrc = 0
    try:
        code = driver.render(run, opts)
        errs, nsrc = annotation_source_errors(code)
        if opts["framework"] in ("pydantic", "sqlmodel"):
            # pseudo-types are rendered as their actual types there: Union[int, IntString] legitimately reads Union[int, int]
            errs = [e for e in errs if e[0] != "source-duplicate-union-member"]
        for kind, txt in errs[:3]:
            wit.append({"property": PROP, "mechanism": kind, "msg": txt})
    except Exception as e:
        if type(e).__name__ == "CaseTimeout":
            raise
        cnt["render_failed"] = 1
    cnt.update(unions_checked=nf.unions + state["pre"].unions, ir_nodes=nf.nodes + state["pre"].nodes, source_subscripts=nsrc,
               second_pass_models=len(before))
    nontrivial = case["kind"] == "universe" and len(set(map(lambda i: json.dumps(UNIVERSE[i]), case["ms"]))) >= 2 or \
        (case["kind"] == "random" and state["pre"].unions + nf.unions >= 1)
    return {"status": "violated" if wit else "held", "witnesses": wit, "nontrivial": bool(nontrivial), "counters": cnt, "digest": digest(case)}


def main():
    cases = gen_cases_for(tier(), seed())
    exhaustive3 = tier() == "thorough"
    v = Verdict(PROP, "exploration",
                f"(a) every multiset of <=2 values (and {'every' if exhaustive3 else '4000 sampled'} multisets of 3) from a universe of "
                f"{len(UNIVERSE)} depth<=2 JSON values placed in one field across samples, through generate/process_meta_data/merge_models "
                "with the 6-type and the default registry; (b) random schema-derived inputs with random options. Monitors: normal-form "
                "predicate on the IR before and after merge_models, second optimize_type pass must be a no-op, ast scan of emitted "
                "annotation source. non-trivial = >=2 distinct values in the multiset / >=1 union seen",
                ["Optional[None] (an all-null field that is missing somewhere) is not excluded by the statement and is accepted"])
    results, infra = run_shards(PROP, cases, timeout_per_case=8)
    v.infra = infra
    for c, r in zip(cases, results):
        v.add(c, r, sample_view={"samples": c["models"][0][1], "registry": c["opts"]["registry"]})
    v.extra["universe_size"] = len(UNIVERSE)
    v.extra["multisets_le2_exhaustive"] = True
    v.extra["multisets_3_exhaustive"] = exhaustive3
    return v.finish(floor_nontrivial=100, monitors_required=("unions_checked", "source_subscripts", "second_pass_models"))
