"""Greedy shrinker for pipeline cases: keeps a case failing with the same mechanism while making it smaller."""
import copy
import json


def _paths(v, path=()):
    """yield paths of all sub-values (depth-first, parents before children)"""
    yield path
    if isinstance(v, dict):
        for k in list(v):
            yield from _paths(v[k], path + (k,))
    elif isinstance(v, list):
        for i in range(len(v)):
            yield from _paths(v[i], path + (i,))


def _get(v, path):
    for p in path:
        v = v[p]
    return v


def _del(v, path):
    parent = _get(v, path[:-1])
    del parent[path[-1]]


def _set(v, path, new):
    parent = _get(v, path[:-1])
    parent[path[-1]] = new


DEFAULT_OPTS = {"flat": True, "merge": [["percent", 0.7], ["number", 10]], "max_literals": 10, "convert_unicode": True,
                "registry": ["IntString", "FloatString", "BooleanString"], "dkf": [], "dkr": [],
                "post_init_converters": False, "meta": False}


def shrink(case, still_fails, budget=4000):
    """case: dict with 'models' [[name, samples]] and 'opts'.  still_fails(case) -> bool"""
    best = copy.deepcopy(case)
    steps = 0

    def attempt(cand):
        nonlocal best, steps
        steps += 1
        if steps > budget:
            return False
        try:
            if still_fails(cand):
                best = cand
                return True
        except Exception:
            pass
        return False

    changed = True
    while changed and steps < budget:
        changed = False
        # options towards defaults
        for k, dv in DEFAULT_OPTS.items():
            if best["opts"].get(k) != dv:
                cand = copy.deepcopy(best)
                cand["opts"][k] = copy.deepcopy(dv)
                if attempt(cand):
                    changed = True
        for mi in range(len(best["models"])):
            # drop whole samples
            i = 0
            while i < len(best["models"][mi][1]) and len(best["models"][mi][1]) > 1:
                cand = copy.deepcopy(best)
                del cand["models"][mi][1][i]
                if attempt(cand):
                    changed = True
                else:
                    i += 1
            # drop keys / list elements, replace values by simpler ones
            for si in range(len(best["models"][mi][1])):
                progress = True
                while progress and steps < budget:
                    progress = False
                    sample = best["models"][mi][1][si]
                    for path in list(_paths(sample)):
                        if not path:
                            continue
                        try:
                            cur = _get(sample, path)
                        except (KeyError, IndexError, TypeError):
                            continue
                        cand = copy.deepcopy(best)
                        _del(cand["models"][mi][1][si], path)
                        if attempt(cand):
                            progress = changed = True
                            break
                        if isinstance(cur, (dict, list)) and cur:
                            for simple in (0, None):
                                cand = copy.deepcopy(best)
                                _set(cand["models"][mi][1][si], path, simple)
                                if attempt(cand):
                                    progress = changed = True
                                    break
                            if progress:
                                break
    return best
