"""One json_to_models.cli.Cli object configured and run twice in one (fresh) process: parse_args(first); run(); then
parse_args(second); run() [; run()].  The text of the last run is what the caller judges with its own oracle - the object's earlier
configuration must not show in it."""
import json
import subprocess

from .common import PY, child_env

SCRIPT = """
import json, sys
from json_to_models.cli import Cli
first, second, again = json.loads(sys.argv[1])
cli = Cli()
cli.parse_args(first)
cli.run()
cli.parse_args(second)
sys.argv = ["json2models"] + second
text = cli.run()
if again:
    text = cli.run()
sys.stdout.buffer.write((text + "\\n").encode("utf-8"))
"""


def run(first, second, cwd, again=False, env=None, timeout=300):
    from .common import run_bounded
    return run_bounded([PY, "-c", SCRIPT, json.dumps([first, second, bool(again)])], timeout=timeout, capture_output=True, text=True, cwd=cwd,
                       env=env or child_env())
