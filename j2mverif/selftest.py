"""Sensitivity self-test: applies small, compiling changes of json_to_models ("mutants") to a scratch copy of
/repo and requires the named quick checks to report a violation (exit 1); applies behaviour-preserving changes
and requires exit 0.  Not a registered check: it is how each monitor earns trust.

usage: python -m j2mverif.selftest [name-substring ...] [--list] [--keep] [--jobs N]"""
import os
import shutil
import subprocess
import sys
import tempfile
from concurrent.futures import ThreadPoolExecutor

from .common import PY, VERIF

SRC = os.environ.get("J2M_SELFTEST_SRC", "/repo")

# (name, file, old, new, [checks that must fire], kind)   kind: "break" (must be caught) | "neutral" (must stay silent)
M = []


def mut(name, file, old, new, checks, kind="break"):
    M.append(dict(name=name, file=file, old=old, new=new, checks=checks, kind=kind))


G = "json_to_models/generator.py"
R = "json_to_models/registry.py"
CX = "json_to_models/dynamic_typing/complex.py"
SS = "json_to_models/dynamic_typing/string_serializable.py"
MM = "json_to_models/dynamic_typing/models_meta.py"
MB = "json_to_models/models/base.py"
MP = "json_to_models/models/pydantic.py"
MA = "json_to_models/models/attr.py"
MD = "json_to_models/models/dataclasses.py"
ST = "json_to_models/models/structure.py"
SC = "json_to_models/models/string_converters.py"
CLI = "json_to_models/cli.py"
TY = "json_to_models/dynamic_typing/typing.py"
SD = "json_to_models/dynamic_typing/string_datetime.py"

# ---- C01 / C07 ----------------------------------------------------------------------------------------
mut("c01-optional-asymmetry-reintroduced", G,
    """                        if isinstance(field, DOptional) and field_original == field.type:
                            # Same type but optional in this variant: the field becomes optional
                            fields[name] = field
                            continue""",
    """                        if isinstance(field, DOptional) and field_original == field.type:
                            continue""", ["C01", "C07"])
mut("c01-missing-field-not-optional", G,
    """                if not isinstance(fields[name], DOptional):
                    fields[name] = DOptional(fields[name])""",
    """                if not isinstance(fields[name], DOptional) and len(fields_diff) < 3:
                    fields[name] = DOptional(fields[name])""", ["C01"])
mut("c01-bool-as-int", G, "_static_types = {float, bool, int}", "_static_types = {float, int}", ["C01"])
mut("c01-null-dropped-without-optional", G,
    """            if optional:
                return DOptional(meta_type)""",
    """            if optional and len(types) != 1:
                return DOptional(meta_type)""", ["C01"])
mut("c01-pydantic-filter-drops-nonnull", MP,
    """            if field_type in (Unknown, Null):
                continue""",
    """            if field_type in (Unknown, Null) or field_type is bool:
                continue""", ["C01", "C04"])
mut("c01-resolve-drops-member", SS, "                types = types - replaced", "                types = {t2 for t1, t2 in self.replaces if t1 in types and t2 in types}", ["C01", "C09"])
# ---- C02 ----------------------------------------------------------------------------------------------
mut("c02-every-new-field-optional", G,
    "                    field = field if first or isinstance(field, DOptional) else DOptional(field)",
    "                    field = field if isinstance(field, DOptional) else DOptional(field)", ["C02"])
mut("c02-unknown-kept-in-union", G,
    "            if Unknown in types and any(t is not Unknown and t is not Null for t in types):\n                types.remove(Unknown)",
    "            if False:\n                types.remove(Unknown)", ["C02"])
mut("c02-int-widened-to-float", G,
    "        if int in other_types and float in other_types:\n            other_types.remove(int)",
    "        if int in other_types:\n            other_types.remove(int)\n            other_types.append(float)", ["C02"])
mut("c02-list-elements-always-optional", G,
    "                other_types.append(cls(DUnion(*(\n                    t.type for t in iterable_types\n                ))))",
    "                other_types.append(cls(DUnion(Null, *(\n                    t.type for t in iterable_types\n                ))))", ["C02"])
# ---- C03 ----------------------------------------------------------------------------------------------
mut("c03-no-blacklist-suffix", MB, "    if s in blacklist_words:\n        s += \"_\"", "    if False:\n        s += \"_\"", ["C03"])
mut("c03-import-lost", TY, "            if isinstance(classes, str):\n                classes_set.add(classes)",
    "            if isinstance(classes, str):\n                classes_set.add(classes) if classes != 'Dict' else None", ["C03"])
mut("c03-unquoted-forward-ref", MM, "        return imports, f\"'{s}'\"", "        return imports, f\"{s}\"", ["C03"])
mut("c03-optional-before-required", ST, "    return required + required_2, optional", "    return optional, required + required_2", ["C01", "C04"])
mut("c03-datetime-not-suffixed", MB, "other_common_names_set = {'datetime', 'time', 'date', 'defaultdict', 'schema'}", "other_common_names_set = {'defaultdict', 'schema'}", ["C03"])
mut("c03-no-dedup-rename", R, "            if counter[model.name] > 1:", "            if counter[model.name] > 2:", ["C03"])
mut("c03-attr-converter-typo-reintroduced", MA, '("attr.converters", "optional")', '("attr.converter", "optional")', ["C03"])
# ---- C04 ----------------------------------------------------------------------------------------------
mut("c04-dict-default-for-optional-list", MP, '                default = "[]"', '                default = "{}"', ["C04"])
mut("c04-ddict-args-swapped", CX, '            f"Dict[str, {nested}]"', '            f"Dict[{nested}, str]"', ["C04"])
mut("c04-alias-from-converted-name", MP, "            alias = json.dumps(name, ensure_ascii=False)",
    "            alias = json.dumps(data[\"name\"].replace('_', '-'), ensure_ascii=False)", ["C04", "C11"])
mut("c04-literal-unsorted-truncated", CX, "                    for s in sorted(self.literals)", "                    for s in sorted(self.literals)[:3]", ["C04", "C10"])
mut("c04-dataclass-none-default-for-list", MD, '                body_kwargs["default_factory"] = "list"', '                body_kwargs["default"] = "None"', ["C04"])
# ---- C05 ----------------------------------------------------------------------------------------------
mut("c05-any-to-all", R, "        return any(cmp.cmp(fields_a, fields_b) for cmp in self._models_cmp)",
    "        return all(cmp.cmp(fields_a, fields_b) for cmp in self._models_cmp)", ["C05"])
mut("c05-percent-strict", R, ">= self.percent_fields", "> self.percent_fields", ["C05"])
mut("c05-number-strict", R, ">= self.number_fields", "> self.number_fields", ["C05"])
mut("c05-closure-one-round", R, "            if flag:\n                groups: OrderedSet[FrozenSet[ModelMeta]] = new_groups",
    "            if flag:\n                groups: OrderedSet[FrozenSet[ModelMeta]] = new_groups\n                flag = False", ["C05"])
mut("c05-replace-parent-skipped", R, "            for ptr in tuple(model.child_pointers):\n                ptr.replace_parent(model_meta)",
    "            for ptr in tuple(model.child_pointers)[1:]:\n                ptr.replace_parent(model_meta)", ["C05"])
mut("c05-unregister-skipped", R, "        for model in models:\n            self._unregister(model)", "        for model in models[1:]:\n            self._unregister(model)", ["C05"])
mut("c05-pointer-not-retargeted", R, "            for ptr in tuple(model.pointers):\n                ptr.replace(model_meta)",
    "            for ptr in tuple(model.pointers):\n                if ptr.parent is not None:\n                    ptr.replace(model_meta)", ["C05"])
# ---- C06 ----------------------------------------------------------------------------------------------
mut("c06-merge-order-unsorted", R, """        groups = sorted(
            (sorted(group, key=models_order.__getitem__) for group in groups),
            key=lambda group: models_order[group[0]]
        )""", "        groups = [list(group) for group in groups]", ["C06"])
mut("c06-literals-unsorted", CX, "                    for s in sorted(self.literals)", "                    for s in self.literals", ["C06"])
mut("c06-parent-by-set-iteration", ST, "                parent = min(parents, key=models_order.index)\n                pos =", "                parent = next(iter(parents))\n                pos =", ["C06"])
mut("c06-name-parts-unsorted", MM, "sorted(filtered_names)", "filtered_names", ["C06"])
mut("c06-import-classes-unsorted", TY, "((module, sorted(classes)) for module, classes in class_imports_map.items())", "((module, list(classes)) for module, classes in class_imports_map.items())", ["C06"])
# ---- C08 ----------------------------------------------------------------------------------------------
mut("c08-int-float-absorption-removed", G, "        if int in other_types and float in other_types:\n            other_types.remove(int)", "        if False:\n            other_types.remove(int)", ["C08"])
mut("c08-optional-collapse-removed", G, "            if isinstance(t, DOptional):\n                t = t.type\n            return meta.replace(t)", "            return meta.replace(t)", ["C08"])
mut("c08-empty-union-crash-reintroduced", G, "            if Unknown in types and any(t is not Unknown and t is not Null for t in types):", "            if Unknown in types:", ["C08", "C01"])
mut("c08-union-dedup-removed", CX, "                if h not in hashes:\n                    unique_types.append(t)", "                if True:\n                    unique_types.append(t)", ["C08"])
mut("c08-single-member-union-kept", G, "            if len(meta_type.types) == 1:\n                meta_type = meta_type.types[0]\n\n            if optional:", "            if optional:", ["C08"])
mut("c08-str-kept-next-to-pseudo", G, "        if str in str_types:\n            other_types.append(str)\n        elif str_types:", "        if str in str_types:\n            other_types.append(str)\n        if str_types and set(str_types) != {str}:\n            str_types = [t for t in str_types if t is not str]", ["C08"])
# ---- C09 ----------------------------------------------------------------------------------------------
mut("c09-detection-order-reversed", G, "            for t in self.str_types_registry:\n                try:", "            for t in reversed(list(self.str_types_registry)):\n                try:", ["C09"])
mut("c09-resolve-returns-replaced", SS, "                    replaced.add(t1)", "                    replaced.add(t2)", ["C09"])
mut("c09-remove-by-substring", SS, "            if cls.__name__ == name or cls.actual_type.__name__ == name:", "            if name in cls.__name__ or cls.actual_type.__name__ == name:", ["C09"])
mut("c09-float-repr-lossy", SS, "class FloatString(StringSerializable, float):\n    actual_type = float\n\n    @classmethod\n    def to_internal_value(cls, value: str) -> 'FloatString':\n        return cls(value)\n\n    def to_representation(self) -> str:\n        return str(self)",
    "class FloatString(StringSerializable, float):\n    actual_type = float\n\n    @classmethod\n    def to_internal_value(cls, value: str) -> 'FloatString':\n        return cls(value)\n\n    def to_representation(self) -> str:\n        return '%g' % self", ["C09"])
mut("c09-time-repr-drops-fraction", SD, "class IsoTimeString(StringSerializable, time):", "class IsoTimeString(StringSerializable, time):\n    def isoformat(self, *a):\n        return time.strftime(self, '%H:%M:%S')\n", ["C09"])
mut("c09-detect-swallow-all", G, "                except ValueError:\n                    continue\n                return t", "                except ValueError:\n                    continue\n                except Exception:\n                    pass\n                return t", ["C09"], kind="neutral")
mut("c09-bool-detected-before-parse", G, "            for t in self.str_types_registry:\n                try:\n                    value = t.to_internal_value(value)", "            for t in self.str_types_registry:\n                try:\n                    if t.__name__ == 'BooleanString' and value.strip().lower() in ('true', 'false'):\n                        return t\n                    value = t.to_internal_value(value)", ["C09"])
# ---- C10 ----------------------------------------------------------------------------------------------
mut("c10-limit-inclusive", CX, "            if limit is None or len(self.literals) < limit:", "            if limit is None or len(self.literals) <= limit:", ["C10"])
mut("c10-length-boundary-off-by-one", CX, "                    lambda s: len(s) >= self.MAX_STRING_LENGTH,", "                    lambda s: len(s) > self.MAX_STRING_LENGTH,", ["C10"])
mut("c10-hard-limit-off-by-one", CX, "                len(literals) > self.MAX_LITERALS", "                len(literals) >= self.MAX_LITERALS", ["C10"])
mut("c10-attrs-literals-enabled", MA, "            StringLiteral.TypeStyle.use_literals: False", "            StringLiteral.TypeStyle.use_literals: True", ["C10"])
mut("c10-naive-quoting", CX, "                    _python_string_literal(s)\n", "                    '\"%s\"' % s\n", ["C10"])
mut("c10-hash-string-ambiguous-reintroduced", CX, "        literals = '...' if self._overflow else json.dumps(sorted(self._literals))", "        literals = self._repr_literals()", ["C10"])
# ---- C11 ----------------------------------------------------------------------------------------------
mut("c11-alias-unescaped-reintroduced", MP, "json.dumps(name, ensure_ascii=False)", "f'\"{name}\"'", ["C11", "C03"])
mut("c11-attrs-metadata-python-name", MA, "            body_kwargs[\"metadata\"] = {METADATA_FIELD_NAME: name}", "            body_kwargs[\"metadata\"] = {METADATA_FIELD_NAME: data[\"name\"]}", ["C11", "C04"])
mut("c11-dataclass-metadata-dropped-for-keywords", MD, "        if not self.no_meta and name != data[\"name\"]:", "        if not self.no_meta and name != data[\"name\"] and name + '_' != data[\"name\"]:", ["C11", "C04"])
mut("c11-alias-ascii-only", MP, "json.dumps(name, ensure_ascii=False)", "json.dumps(name.encode('ascii', 'ignore').decode())", ["C11"])
# ---- C12 ----------------------------------------------------------------------------------------------
mut("c12-nested-child-at-module-level", ST, "                parent[\"nested\"].append(struct)", "                root_models.append(struct) if len(struct[\"roots\"]) and key.endswith('D') else parent[\"nested\"].append(struct)", ["C12"])
mut("c12-flat-child-before-root", ST, "            root_models.insert(pos, struct)", "            root_models.insert(pos if len(root_models) > 2 else 0, struct)", ["C12"])
mut("c12-nested-wrong-parent", ST, "                parent = structure_hash_table[min(parents, key=models_order.index)]\n                struct = structure_hash_table[key]", "                parent = structure_hash_table[struct[\"roots\"][0]] if struct[\"roots\"] else structure_hash_table[min(parents, key=models_order.index)]\n                struct = structure_hash_table[key]", ["C12"])
mut("c12-nested-model-dropped", MB, "    for data in structure:\n        nested_imports, nested_classes = _generate_code(", "    for data in structure:\n        if lvl >= 3:\n            continue\n        nested_imports, nested_classes = _generate_code(", ["C12", "C03"])
mut("c12-nested-indent-once", MB, "            data[\"nested\"] = [indent(s) for s in nested_classes]", "            data[\"nested\"] = [indent(s) for s in nested_classes[:1]] + [s for s in nested_classes[1:]]", ["C12", "C03"])
# ---- C13 ----------------------------------------------------------------------------------------------
mut("c13-regex-any-key", G, "                if all(map(reg.match, value.keys())):", "                if any(map(reg.match, value.keys())):", ["C13"])
mut("c13-dkf-propagates-into-lists", G, "                types = [self._detect_type(item) for item in value]\n                if len(types) > 1:\n                    union = DUnion(*types)\n                    if len(union.types) == 1:\n                        return DList(*union.types)",
    "                types = [self._detect_type(item, convert_dict) for item in value]\n                if len(types) > 1:\n                    union = DUnion(*types)\n                    if len(union.types) == 1:\n                        return DList(*union.types)", ["C13"])
mut("c13-cli-anchoring-ungrouped", CLI, 'rf"^(?:{r})$"', 'rf"^{r}$"', ["C13"])
mut("c13-cli-no-end-anchor", CLI, 'rf"^(?:{r})$"', 'rf"^(?:{r})"', ["C13"])
mut("c13-dkf-ignored-for-nested", G, "            convert_dict = key not in self.dict_keys_fields", "            convert_dict = key not in self.dict_keys_fields or len(data) == 1", ["C13"])
mut("c13-mapping-values-inherit-dict", G, "                types = [self._detect_type(item) for item in value.values()]", "                types = [self._detect_type(item, False) for item in value.values()]", ["C13"])
# ---- C14 ----------------------------------------------------------------------------------------------
UT = "json_to_models/utils.py"
mut("c14-context-not-restored-on-error", MM, "        def __exit__(self, exc_type, exc_val, exc_tb):\n            self.data.context = self._old", "        def __exit__(self, exc_type, exc_val, exc_tb):\n            if exc_type is None:\n                self.data.context = self._old", ["C14"])
mut("c14-label-cache-shared-between-instances", UT, "    @wraps(func)\n    def cached_fn(self, *args):\n        if getattr(self, '__cache__', None) is None:\n            setattr(self, '__cache__', {})\n        key = (func.__name__, *args)\n        value = self.__cache__.get(key, ...)\n        if value is Ellipsis:\n            value = func(self, *args)\n            self.__cache__[key] = value\n        return value",
    "    shared = {}\n\n    @wraps(func)\n    def cached_fn(self, *args):\n        value = shared.get(args, ...)\n        if value is Ellipsis:\n            value = func(self, *args)\n            shared[args] = value\n        return value", ["C14"])
mut("c14-class-name-conversion-not-idempotent", MB, "        return prepare_label(name, convert_unicode=self.convert_unicode, to_snake_case=False)", "        name = prepare_label(name, convert_unicode=self.convert_unicode, to_snake_case=False)\n        return name + 'X' if len(name) < 6 else name", ["C14"])
mut("c14-generator-registers-datetime-globally", MP, "        kwargs['post_init_converters'] = False\n        super().__init__(model, **kwargs)", "        kwargs['post_init_converters'] = False\n        from ..dynamic_typing import register_datetime_classes, registry, IsoDateString\n        if IsoDateString not in registry:\n            register_datetime_classes()\n        super().__init__(model, **kwargs)", ["C14"])
mut("c14-context-never-reset", MM, "        def __exit__(self, exc_type, exc_val, exc_tb):\n            self.data.context = self._old", "        def __exit__(self, exc_type, exc_val, exc_tb):\n            pass", ["C14"])
# ---- C15 ----------------------------------------------------------------------------------------------
mut("c15-context-plain-global", MM, "        class _Data(threading.local):", "        class _Data:", ["C15"])
mut("c15-context-only-in-importing-thread", MM, "        class _Data(threading.local):\n            # Class attribute is the default for threads other than the one that imported this module\n            context: ContextInjectionType = None\n\n        data = _Data()",
    "        data = threading.local()\n        data.context: ContextInjectionType = None", ["C15"])
mut("c15-shared-type-style-mutated", MB, "        resolved_types_style = copy.deepcopy(self.default_types_style)", "        resolved_types_style = self.default_types_style", ["C15"])
# ---- C16 ----------------------------------------------------------------------------------------------
mut("c16-legacy-list-before-model", CLI, "        models = list(models) + list(models_lists)", "        models = list(models_lists) + list(models)", ["C16"])
mut("c16-extend-to-append", CLI, "                models_dict[model_name].extend(iterator)", "                models_dict[model_name].extend(list(iterator)[:3])", ["C16"])
mut("c16-max-literals-ignored", CLI, "            max_literals=self.max_literals\n", "            max_literals=GenericModelCodeGenerator.DEFAULT_MAX_LITERALS if self.max_literals > 1 else self.max_literals\n", ["C16"])
mut("c16-dkf-ignored", CLI, "        self.dict_keys_fields = dict_keys_fields or ()", "        self.dict_keys_fields = ()", ["C16"])
mut("c16-unicode-flag-inverted", CLI, "            convert_unicode=not disable_unicode_conversion,", "            convert_unicode=bool(disable_unicode_conversion),", ["C16"])
mut("c16-output-file-stripped", CLI, "                f.write(output)", "                f.write(output.strip())", ["C16"])
mut("c16-lookup-last-component-dropped", CLI, "        if len(split) == 1:\n            return d[split[0]]", "        if len(split) == 1:\n            return d[split[0]] if isinstance(d[split[0]], list) else d", ["C16"])
mut("c16-strings-converters-ignored-again", CLI, "bool_js_style = lambda s: s if isinstance(s, bool) else", "bool_js_style = lambda s:", ["C16"])
mut("c16-merge-default-number-dropped", CLI, '            default=["percent", "number"],', '            default=["percent"],', ["C16"])
mut("c16-ini-values-lowercased", CLI, "        return {s: dict(config.items(s)) for s in config.sections()}", "        return {s: {k: v.lower() for k, v in config.items(s)} for s in config.sections()}", ["C16"])
# ---- C17 ----------------------------------------------------------------------------------------------
mut("c17-output-opened-before-generation", CLI, """        structure = self.structure_fn(registry.models_map)
        output = self.version_string + generate_code(""", """        structure = self.structure_fn(registry.models_map)
        if self.output_file:
            open(self.output_file, "w", encoding="utf-8").close()
        output = self.version_string + generate_code(""", ["C17"])
mut("c17-errors-swallowed-exit-zero", CLI, "    cli = Cli()\n    cli.parse_args()\n    print(cli.run())", "    cli = Cli()\n    try:\n        cli.parse_args()\n        print(cli.run())\n    except Exception as e:\n        print('error:', e)", ["C17"])
mut("c17-scalar-sample-skipped", CLI, "        raise TypeError(f'dict or list is expected at {lookup if lookup != \"-\" else \"JSON root\"}, not {type(item)}')", "        return", ["C17"])
mut("c17-missing-file-skipped", CLI, "        return path,\n", "        return (path,) if path.exists() else ()\n", ["C17"])
mut("c17-incremental-write", CLI, """        output = self.version_string + generate_code(
            structure,
            self.model_generator,
            class_generator_kwargs=self.model_generator_kwargs,
            preamble=self.preamble
        )
        if self.output_file:
            # Fail before the file is opened (and truncated) if the text can not be written,
            # i.e. command line arguments with undecodable bytes end up in the header as lone surrogates
            output.encode("utf-8")
            with open(self.output_file, "w", encoding="utf-8") as f:
                f.write(output)""", """        if self.output_file:
            with open(self.output_file, "w", encoding="utf-8") as f:
                f.write(self.version_string)
                output = self.version_string + generate_code(
                    structure,
                    self.model_generator,
                    class_generator_kwargs=self.model_generator_kwargs,
                    preamble=self.preamble
                )
                f.write(output[len(self.version_string):])
        else:
            output = self.version_string + generate_code(
                structure,
                self.model_generator,
                class_generator_kwargs=self.model_generator_kwargs,
                preamble=self.preamble
            )
        if self.output_file:""", ["C17"])
mut("c17-file-opened-before-the-text-is-encodable", CLI, """            output.encode("utf-8")
            with open(self.output_file, "w", encoding="utf-8") as f:""", """            with open(self.output_file, "w", encoding="utf-8") as f:""", ["C17"])
mut("c15-yaml-loader-shared-by-threads", CLI, """    def yaml_load(stream):
        # A YAML() object keeps the state of the document it parses: one object per load,
        # so that loads running concurrently in several threads do not corrupt each other
        return yaml.YAML(typ='safe', pure=True).load(stream)""", """    yaml_load = yaml.YAML(typ='safe', pure=True).load""", ["C15"])
mut("c03-pydantic-alias-raw-surrogate", MP, """            body_kwargs["alias"] = re.sub(r'[\\ud800-\\udfff]', lambda m: '\\\\u%04x' % ord(m.group()), alias)""", """            body_kwargs["alias"] = alias""", ["C03", "C11"])
mut("c17-non-dict-items-filtered", CLI, "    if isinstance(item, list):\n        yield from item", "    if isinstance(item, list):\n        yield from (x for x in item if isinstance(x, dict))", ["C17"])
mut("neutral-c17-tempfile-rename-writer", CLI, """            with open(self.output_file, "w", encoding="utf-8") as f:
                f.write(output)""", """            tmp_name = self.output_file + ".tmp"
            with open(tmp_name, "w", encoding="utf-8") as f:
                f.write(output)
            os.replace(tmp_name, self.output_file)""", ["C17", "C16"], kind="neutral")
# ---- C18 ----------------------------------------------------------------------------------------------
mut("c18-path-tokens-reversed", SC, '        paths: List[str] = ["".join(p[1:]) for p in paths]', '        paths: List[str] = ["".join(p[1:-1][::-1] + p[-1:]) for p in paths]', ["C18"])
mut("c18-list-dict-token-confused", SC, "                elif cls is DList:\n                    token = 'L'\n                elif cls is DDict:\n                    token = 'D'", "                elif cls is DList:\n                    token = 'L'\n                elif cls is DDict:\n                    token = 'L'", ["C18"])
mut("c18-attrs-post-init-name-typo", SC, "        ClassType.Attrs: '__attrs_post_init__',", "        ClassType.Attrs: '__attr_post_init__',", ["C18"])
mut("c18-path-uses-raw-field-name", MB, "        return [self.convert_field_name(name) + ('#' + '.'.join(path) if path else '')", "        return [name + ('#' + '.'.join(path) if path else '')", ["C18"])
mut("c18-optional-none-crash-reintroduced", SC, "    elif token == 'O':\n        if value is None:\n            return value\n", "    elif token == 'O':\n", ["C18"])
mut("c18-dict-values-not-converted", SC, "            key: _process_string_field_value(path, item, current_type=t, optional=optional)", "            key: item", ["C18"])
mut("c18-only-first-list-element", SC, "        return [\n            _process_string_field_value(path, item, current_type=t, optional=optional)\n            for item in value\n        ]", "        return [\n            _process_string_field_value(path, item, current_type=t, optional=optional) if i == 0 else item\n            for i, item in enumerate(value)\n        ]", ["C18"])
mut("c18-dataclass-decorator-dropped-for-nested", MD, "        imports, kwargs = super().convert_strings_kwargs\n        imports.append(('json_to_models.models', ['ClassType']))\n        kwargs[\"class_type\"] = 'ClassType.Dataclass'", "        imports, kwargs = super().convert_strings_kwargs\n        imports.append(('json_to_models.models', ['ClassType']))\n        if len(self.model.type) > 2:\n            kwargs[\"class_type\"] = 'ClassType.Dataclass'", ["C18"])
# ---- C19 ----------------------------------------------------------------------------------------------
mut("c19-header-quote-runs-unbroken", CLI, """.replace('""', '"\\\\"')""", "", ["C19"])
mut("c19-header-not-raw", CLI, "            'r\"\"\"\\n'", "            '\"\"\"\\n'", ["C19"])
mut("c19-preamble-before-imports", MB, "    if imports:\n        imports_str = compile_imports(imports) + objects_delimiter\n    if preamble:\n        imports_str += preamble + objects_delimiter", "    if preamble:\n        imports_str += preamble + objects_delimiter\n    if imports:\n        imports_str += compile_imports(imports) + objects_delimiter", ["C19"])
mut("c19-preamble-twice", MB, "        imports_str += preamble + objects_delimiter\n", "        imports_str += preamble + objects_delimiter\n        if len(classes) > 1:\n            classes[-1] = classes[-1] + objects_delimiter + preamble\n", ["C19"])
mut("c19-preamble-not-stripped", CLI, "        if preamble:\n            preamble = preamble.strip()\n        self.preamble = preamble or None", "        self.preamble = preamble or None", ["C19"])
mut("c19-preamble-dedented", CLI, "            preamble = preamble.strip()", "            preamble = '\\n'.join(line.strip() for line in preamble.strip().split('\\n'))", ["C19"])
# ---- neutral (behaviour preserving) -------------------------------------------------------------------
mut("neutral-rename-local", G, "        fields_sets = [self._convert(data) for data in data_variants]\n        fields = self.merge_field_sets(fields_sets)",
    "        variants = [self._convert(data) for data in data_variants]\n        fields = self.merge_field_sets(variants)", ["C01", "C02", "C05"], kind="neutral")
mut("neutral-cmp-reordered", R, "        return any(cmp.cmp(fields_a, fields_b) for cmp in self._models_cmp)",
    "        return any(cmp.cmp(fields_b, fields_a) for cmp in reversed(self._models_cmp))", ["C05", "C01"], kind="neutral")


mut("neutral-dataclass-always-field-call", MD, "        if len(body_kwargs) == 1 and next(iter(body_kwargs.keys())) == \"default\":\n            data[\"body\"] = body_kwargs[\"default\"]\n        elif body_kwargs:",
    "        if body_kwargs:", ["C04", "C12", "C18", "C01"], kind="neutral")
mut("neutral-union-members-reversed", CX, "        super().__init__(*unique_types)", "        super().__init__(*reversed(unique_types))", ["C01", "C02", "C04", "C07", "C08"], kind="neutral")
mut("neutral-literal-values-reverse-sorted", CX, "                    for s in sorted(self.literals)", "                    for s in sorted(self.literals, reverse=True)", ["C04", "C10", "C06"], kind="neutral")
mut("neutral-merge-groups-reverse-order", R, "            key=lambda group: models_order[group[0]]\n        )", "            key=lambda group: -models_order[group[0]]\n        )", ["C05", "C07", "C14", "C06", "C12"], kind="neutral")
mut("neutral-header-wording", CLI, "f'generated by json2python-models v{VERSION} at {datetime.now().ctime()}\\n'", "f'Models generated with json2python-models {VERSION} on {datetime.now().ctime()}\\n'", ["C19", "C16", "C17"], kind="neutral")
mut("neutral-replaces-as-frozensets", R, "            replaces.append((model_meta, set(group)))", "            replaces.append((model_meta, frozenset(group)))", ["C05"], kind="neutral")


mut("neutral-cli-friendly-errors-exit-2", CLI, "    cli = Cli()\n    cli.parse_args()\n    print(cli.run())",
    "    cli = Cli()\n    try:\n        cli.parse_args()\n        text = cli.run()\n    except Exception as e:\n        import sys as _sys\n        print(f'json2models: error: {type(e).__name__}: {e}', file=_sys.stderr)\n        _sys.exit(2)\n    print(text)", ["C17", "C16"], kind="neutral")
mut("neutral-cli-error-message-on-stdout", CLI, "    cli = Cli()\n    cli.parse_args()\n    print(cli.run())",
    "    cli = Cli()\n    try:\n        cli.parse_args()\n        text = cli.run()\n    except Exception as e:\n        import sys as _sys\n        print(f'json2models failed: {e}')\n        _sys.exit(1)\n    print(text)", ["C17"], kind="neutral")
mut("neutral-output-file-ends-with-newline", CLI, "                f.write(output)", "                f.write(output + '\\n')", ["C16", "C17"], kind="neutral")
mut("neutral-optional-fields-sorted-by-name", ST, "    return required + required_2, optional", "    return required + required_2, sorted(optional)", ["C04", "C12", "C03", "C06", "C18"], kind="neutral")


mut("neutral-sqlmodel-comment-wording", "json_to_models/models/sqlmodel.py", "# Warn! This generated code does not respect SQLModel Relationship and foreign_key, please add them manually.",
    "# NOTE: relationships and foreign keys are not generated; add them by hand.", ["C19", "C03", "C04"], kind="neutral")
mut("neutral-model-name-joiner", MM, '    WORDS_SEPARATOR = "_"', '    WORDS_SEPARATOR = "And"', ["C03", "C04", "C11", "C12", "C05", "C01"], kind="neutral")


mut("neutral-merge-closure-by-union-find", R, """        groups: Iterable[Set[ModelMeta]] = [{model, *models} for model, models in models2merge.items()]
        # Make groups non-overlapping.
        # This is not optimal algorithm but it works and we probably will not have thousands of models here.
        flag = True
        while flag:
            flag = False
            new_groups: OrderedSet[FrozenSet[ModelMeta]] = OrderedSet()
            for gr1 in groups:
                in_set = False
                for gr2 in groups:
                    if gr1 is gr2:
                        continue
                    if gr1 & gr2:
                        in_set = True
                        old_len = len(new_groups)
                        new_groups.add(frozenset(gr1 | gr2))
                        added = old_len < len(new_groups)
                        flag = flag or added
                if not in_set:
                    new_groups.add(gr1)
            if flag:
                groups: OrderedSet[FrozenSet[ModelMeta]] = new_groups
""", """        leader = {}

        def find(x):
            while leader.setdefault(x, x) is not x:
                leader[x] = leader[leader[x]]
                x = leader[x]
            return x

        for model, models in models2merge.items():
            for other in models:
                leader[find(model)] = find(other)
        components = {}
        for model in models2merge:
            components.setdefault(find(model), set()).add(model)
        groups = list(components.values())
""", ["C05", "C01", "C07", "C06"], kind="neutral")
mut("neutral-context-via-contextvars", MM, """        class _Data(threading.local):
            # Class attribute is the default for threads other than the one that imported this module
            context: ContextInjectionType = None

        data = _Data()
""", """        class _Data:
            import contextvars as _cv
            _var = _cv.ContextVar("j2m_abs_ref_context", default=None)

            @property
            def context(self):
                return self._var.get()

            @context.setter
            def context(self, value):
                self._var.set(value)

        data = _Data()
""", ["C15", "C14", "C03"], kind="neutral")
mut("c03-cached-method-cache-shared-between-methods", "json_to_models/utils.py", "        key = (func.__name__, *args)\n", "        key = args\n", ["C03"])

mut("c14-cli-options-written-into-the-global-registry", "json_to_models/cli.py",
    "        str_types_registry = StringSerializableRegistry(*registry.types)\n        str_types_registry.replaces.update(registry.replaces)\n",
    "        str_types_registry = registry\n", ["C14", "C15"])
mut("c02-deep-containers-typed-any", G, "    def _detect_type(self, value, convert_dict=True) -> MetaData:\n",
    "    def _detect_type(self, value, convert_dict=True) -> MetaData:\n        if isinstance(value, list) and len(value) == 1 and isinstance(value[0], list):\n            r = repr(value)\n            if len(r) - len(r.lstrip('[')) == 100:\n                return DList(Unknown)\n", ["C02"])

def apply(m, root):
    p = os.path.join(root, m["file"])
    s = open(p).read()
    if m["old"] not in s:
        raise RuntimeError(f"mutant {m['name']}: anchor text not found in {m['file']}")
    open(p, "w").write(s.replace(m["old"], m["new"], 1))


def run_one(m, keep=False):
    tmp = tempfile.mkdtemp(prefix="j2m_selftest_")
    root = os.path.join(tmp, "repo")
    try:
        shutil.copytree(SRC, root, ignore=shutil.ignore_patterns(".git", "__pycache__", "*.pyc", ".pytest_cache", "*.egg-info"))
        try:
            apply(m, root)
        except RuntimeError as e:
            return m, [("-", "STALE", str(e))]
        # must still compile
        r = subprocess.run([PY, "-m", "py_compile", os.path.join(root, m["file"])], capture_output=True, text=True)
        if r.returncode:
            return m, [("-", "NOCOMPILE", r.stderr[-300:])]
        out = []
        for chk in m["checks"]:
            env = dict(os.environ, J2M_VERIF_REPO=root, VERIF_TIER="quick", J2M_VERIF_JOBS=os.environ.get("J2M_SELFTEST_SHARDS", "4"),
                       J2M_VERIF_EVIDENCE_DIR=os.path.join(tmp, "evidence"), J2M_VERIF_REPLAY_DIR=os.path.join(tmp, "replays"))
            r = subprocess.run([os.path.join(VERIF, "bin", "check"), chk], capture_output=True, text=True, env=env, timeout=1800)
            lines = [ln for ln in r.stdout.split("\n") if ln.startswith(("VIOLATION", "  mechanism", "INCONCLUSIVE"))]
            out.append((chk, r.returncode, " | ".join(lines)[:400] or r.stderr[-300:]))
        return m, out
    finally:
        if not keep:
            shutil.rmtree(tmp, ignore_errors=True)


def main(argv):
    keep = "--keep" in argv
    jobs = 4
    if "--jobs" in argv:
        jobs = int(argv[argv.index("--jobs") + 1])
    names = [a for a in argv if not a.startswith("--") and not a.isdigit()]
    todo = [m for m in M if not names or any(n in m["name"] for n in names)]
    if "--list" in argv:
        for m in todo:
            print(m["name"], m["checks"], m["kind"])
        return 0
    bad = 0
    with ThreadPoolExecutor(max_workers=jobs) as ex:
        for m, out in ex.map(lambda mm: run_one(mm, keep), todo):
            for chk, rc, info in out:
                want = 1 if m["kind"] == "break" else 0
                ok = rc == want and (want == 0 or "VIOLATION" in info)
                bad += not ok
                print(f"{'ok  ' if ok else 'FAIL'} {m['name']:45s} {chk} exit={rc} (want {want}) {info[:200] if (not ok or m['kind']=='break') else ''}")
    print("selftest:", "all as expected" if not bad else f"{bad} unexpected")
    return 1 if bad else 0


if __name__ == "__main__":
    sys.exit(main(sys.argv[1:]))
