"""Shared infrastructure: paths, seeds, shard runner, verdict aggregation, evidence, known findings."""
import hashlib
import json
import os
import random
import shutil
import subprocess
import sys
import time
from collections import Counter

VERIF = os.path.dirname(os.path.dirname(os.path.abspath(__file__)))
REPO = os.environ.get("J2M_VERIF_REPO", "/repo")
PY = os.environ.get("J2M_VERIF_PY", "/venv/bin/python")
WORK = os.path.join(VERIF, ".work")
NPROC = int(os.environ.get("J2M_VERIF_JOBS", "16"))


def tier():
    return os.environ.get("VERIF_TIER", "quick")


def seed():
    try:
        return int(os.environ.get("VERIF_SEED", "0"))
    except ValueError:
        return 0


def rng_for(*parts):
    """Deterministic RNG derived from arbitrary parts (independent of PYTHONHASHSEED)."""
    h = hashlib.sha256(repr(parts).encode()).digest()
    return random.Random(int.from_bytes(h[:8], "big"))


def digest(obj) -> str:
    return hashlib.sha256(json.dumps(obj, sort_keys=True, default=repr, ensure_ascii=True).encode()).hexdigest()[:16]


def child_env(extra=None, hashseed=os.environ.get("J2M_VERIF_HASHSEED", "0"), with_site=False):
    env = dict(os.environ)
    paths = [REPO, VERIF, os.path.join(VERIF, "stubs")]
    if with_site:
        paths.insert(0, os.path.join(VERIF, "sitecustom"))
    env["PYTHONPATH"] = os.pathsep.join(paths)
    env["PYTHONDONTWRITEBYTECODE"] = "1"
    env.setdefault("PYTHONWARNINGS", "ignore")
    env["J2M_VERIF"] = "1"
    env["J2M_VERIF_REPO"] = REPO
    if hashseed is not None and hashseed != "random":
        env["PYTHONHASHSEED"] = str(hashseed)
    else:
        env.pop("PYTHONHASHSEED", None)
    env.pop("TRAVIS", None)
    env.pop("FORCE_COVERAGE", None)
    if extra:
        env.update(extra)
    return env


def repo_state():
    try:
        head = subprocess.run(["git", "-C", REPO, "rev-parse", "HEAD"], capture_output=True, text=True, timeout=20).stdout.strip()
        dirty = bool(subprocess.run(["git", "-C", REPO, "status", "--porcelain", "-uno"], capture_output=True, text=True, timeout=20).stdout.strip())
    except Exception:
        head, dirty = "unknown", None
    return {"repo": REPO, "head": head, "dirty": dirty}


def run_shards(check: str, cases: list, timeout_per_case: float = 20.0, jobs: int = None, hashseed=os.environ.get("J2M_VERIF_HASHSEED", "0"),
               extra_env=None, shard_wall: float = None):
    """Run cases in parallel worker subprocesses. Returns (results, infra) where results is a list aligned
    with cases (missing -> inconclusive record)."""
    jobs = jobs or NPROC
    jobs = max(1, min(jobs, len(cases)))
    wd = os.path.join(WORK, f"{check}.{os.getpid()}")
    shutil.rmtree(wd, ignore_errors=True)
    os.makedirs(wd, exist_ok=True)
    shards = [[] for _ in range(jobs)]
    for i, c in enumerate(cases):
        shards[i % jobs].append((i, c))
    procs = []
    for s, shard in enumerate(shards):
        fin = os.path.join(wd, f"in{s}.json")
        fout = os.path.join(wd, f"out{s}.jsonl")
        with open(fin, "w") as f:
            json.dump({"check": check, "timeout": timeout_per_case, "cases": shard}, f)
        hs = hashseed[s % len(hashseed)] if isinstance(hashseed, (list, tuple)) else hashseed
        p = subprocess.Popen([PY, "-X", "faulthandler", "-m", "j2mverif.worker", fin, fout],
                             env=child_env(extra_env, hashseed=hs), cwd=wd,
                             stdout=subprocess.PIPE, stderr=subprocess.PIPE, text=True)
        procs.append((p, fout, shard))
    results = [None] * len(cases)
    infra = {"worker_failures": [], "shards": jobs}
    wall = shard_wall or (120 + timeout_per_case * max(len(s) for s in shards))
    deadline = time.time() + wall
    for p, fout, shard in procs:
        try:
            out, err = p.communicate(timeout=max(1, deadline - time.time()))
        except subprocess.TimeoutExpired:
            p.kill()
            out, err = p.communicate()
            infra["worker_failures"].append({"kind": "watchdog", "stderr": (err or "")[-2000:]})
        if p.returncode not in (0, None):
            infra["worker_failures"].append({"kind": f"exit {p.returncode}", "stderr": (err or "")[-3000:]})
        if os.path.exists(fout):
            with open(fout) as f:
                for line in f:
                    try:
                        rec = json.loads(line)
                    except ValueError:
                        continue
                    results[rec["i"]] = rec["r"]
    for i, r in enumerate(results):
        if r is None:
            results[i] = {"status": "inconclusive", "why": "worker produced no result", "witnesses": []}
    reached = set()
    for _p, fout, _shard in procs:
        try:
            with open(fout + ".cov") as f:
                reached.update(json.load(f))
        except Exception:
            pass
    infra["functions_reached"] = sorted(reached)
    shutil.rmtree(wd, ignore_errors=True)
    try:
        os.rmdir(WORK)
    except OSError:
        pass
    return results, infra


# ----------------------------------------------------------------------------------------------------------
# Known findings

def repo_functions():
    """every function / method defined in the repository package: 'json_to_models/x.py::Class.method'"""
    import ast
    out = []
    root = os.path.join(REPO, "json_to_models")
    for dp, _dn, fns in os.walk(root):
        for fn in sorted(fns):
            if not fn.endswith(".py"):
                continue
            path = os.path.join(dp, fn)
            rel = "json_to_models/" + os.path.relpath(path, root)
            try:
                tree = ast.parse(open(path).read())
            except Exception:
                continue

            def rec(node, prefix):
                for ch in ast.iter_child_nodes(node):
                    if isinstance(ch, (ast.FunctionDef, ast.AsyncFunctionDef)):
                        q = prefix + ch.name
                        out.append(rel + "::" + q)
                        rec(ch, q + ".<locals>.")
                    elif isinstance(ch, ast.ClassDef):
                        rec(ch, prefix + ch.name + ".")
                    else:
                        rec(ch, prefix)
            rec(tree, "")
    return out


def load_known():
    path = os.path.join(VERIF, "known_findings.json")
    with open(path) as f:
        data = json.load(f)
    open_ = {}
    for e in data.get("findings", []):
        if e.get("status") == "open":
            open_.setdefault(e["property"], {})[e["mechanism"]] = e
    return open_


class Verdict:
    """Aggregates case results for one property into exit code, stdout lines and the evidence file."""

    def __init__(self, prop: str, level: str, rule: str, assumptions=None):
        self.prop = prop
        self.level = level
        self.rule = rule
        self.assumptions = assumptions or []
        self.t0 = time.time()
        self.evaluations = 0
        self.nontrivial = set()
        self.samples = []
        self.counters = Counter()
        self.status = Counter()
        self.violations = {}  # mechanism key -> witness (first)
        self.viol_count = Counter()
        self.inconclusive_why = Counter()
        self.inconclusive_examples = []
        self.extra = {}
        self.infra = {}

    def add(self, case, result, sample_view=None):
        self.evaluations += 1
        st = result.get("status", "inconclusive")
        self.status[st] += 1
        if st == "inconclusive":
            self.inconclusive_why[str(result.get("why", "?"))[:120]] += 1
            why = str(result.get("why"))
            if sum(1 for x in self.inconclusive_examples if x["why"][:20] == why[:20]) < 2:
                self.inconclusive_examples.append({"why": str(result.get("why"))[:300], "case": case})
        if result.get("nontrivial"):
            self.nontrivial.add(result.get("digest") or digest(case))
        for k, v in (result.get("counters") or {}).items():
            self.counters[k] += v
        for w in result.get("witnesses") or []:
            mech = w.get("mechanism") or "unclassified"
            key = f"{w.get('property', self.prop)}|{mech}"
            if w.get("property", self.prop) != self.prop:
                continue
            self.viol_count[mech] += 1
            if mech not in self.violations:
                self.violations[mech] = {"case": case, "witness": w}
        if sample_view is not None and len(self.samples) < 5 and result.get("nontrivial"):
            self.samples.append(sample_view)

    def finish(self, floor_nontrivial=2, max_inconclusive_frac=0.10, monitors_required=(), exhaustive=False):
        known = load_known().get(self.prop, {})
        lines = []
        unlisted = 0
        known_hits = {}
        rdir = os.path.join(os.environ.get("J2M_VERIF_REPLAY_DIR") or os.path.join(VERIF, "replays"), self.prop)
        state = repo_state()
        for mech, v in sorted(self.violations.items()):
            if mech in known:
                known_hits[mech] = self.viol_count[mech]
                lines.append(f"KNOWN-FINDING: property={self.prop} {mech}: {v['witness'].get('msg', '')[:200]}")
                continue
            unlisted += 1
            os.makedirs(rdir, exist_ok=True)
            path = os.path.join(rdir, f"{digest([mech, v['case']])}.json")
            with open(path, "w", errors="backslashreplace") as f:  # unpaired surrogates in sample strings stay valid JSON escapes
                json.dump({"property": self.prop, "mechanism": mech, "occurrences": self.viol_count[mech],
                           "seed": seed(), "tier": tier(), "case": v["case"], "witness": v["witness"],
                           "repo": state}, f, indent=1, default=repr, ensure_ascii=False)
            lines.append(f"VIOLATION property={self.prop} replay={path}")
            lines.append(f"  mechanism={mech} x{self.viol_count[mech]}: {v['witness'].get('msg', '')[:300]}")
        decided = self.status["held"] + self.status["violated"]
        inconclusive = self.status["inconclusive"]
        reasons = []
        if len(self.nontrivial) < floor_nontrivial:
            reasons.append(f"only {len(self.nontrivial)} distinct non-trivial cases (floor {floor_nontrivial})")
        if self.evaluations and inconclusive / self.evaluations > max_inconclusive_frac:
            reasons.append(f"{inconclusive}/{self.evaluations} cases inconclusive: {dict(self.inconclusive_why.most_common(3))}")
        for m in monitors_required:
            if not self.counters.get(m):
                reasons.append(f"monitor '{m}' observed nothing")
        if not self.samples:
            self.samples.append({"note": "no non-trivial case sample captured"})
        cov = {
            "evaluations": self.evaluations,
            "distinct_nontrivial": len(self.nontrivial),
            "rule": self.rule,
            "samples": self.samples,
            "decided": decided,
            "status_counts": dict(self.status),
            "monitor_counters": dict(self.counters),
            "known_findings_observed": known_hits,
            "unlisted_violation_classes": unlisted,
            "inconclusive_reasons": dict(self.inconclusive_why.most_common(10)),
            "inconclusive_examples": self.inconclusive_examples,
            "infra": self.infra,
            "repo": state,
            "exhaustive": bool(exhaustive),
        }
        reached = (self.infra or {}).pop("functions_reached", None) if isinstance(self.infra, dict) else None
        if reached is not None:
            total = repo_functions()
            hit = [f for f in total if f in set(reached)]
            cov["repo_functions_total"] = len(total)
            cov["repo_functions_reached"] = len(hit)
            cov["repo_functions_not_reached"] = [f for f in total if f not in set(reached)]
            cov["infra"] = self.infra
        cov.update(self.extra)
        ev = {
            "property_id": self.prop,
            "tier": tier() if tier() in ("quick", "thorough") else "quick",
            "seed": seed(),
            "level": self.level,
            "coverage": cov,
            "assumptions": self.assumptions,
            "wall_s": round(time.time() - self.t0, 2),
            "violations": unlisted,
            "verdict": "violated" if unlisted else ("inconclusive" if reasons else "held"),
        }
        evdir = os.environ.get("J2M_VERIF_EVIDENCE_DIR") or os.path.join(VERIF, "evidence")
        os.makedirs(evdir, exist_ok=True)
        with open(os.path.join(evdir, f"{self.prop}.json"), "w", errors="backslashreplace") as f:
            json.dump(ev, f, indent=1, default=repr, ensure_ascii=False)
        for ln in lines:
            print(ln)
        summary = (f"{self.prop} tier={tier()} seed={seed()} evaluations={self.evaluations} "
                   f"nontrivial={len(self.nontrivial)} status={dict(self.status)} wall={ev['wall_s']}s")
        print(summary)
        interesting = {k: v for k, v in self.counters.items()}
        print(f"  monitors: {json.dumps(interesting, sort_keys=True)}")
        herr = {k: n for k, n in self.inconclusive_why.items() if k.startswith("harness error")}
        if herr:
            # not a verdict on the repository, but never silent: the monitor could not judge these executions
            print(f"NOTE property={self.prop} {sum(herr.values())} executions could not be judged (harness error): {list(herr)[:2]}")
        if unlisted:
            return 1
        if reasons:
            print(f"INCONCLUSIVE property={self.prop} " + "; ".join(reasons))
            return 2
        return 0


class TimedOut:
    """stand-in for a CompletedProcess when the child did not finish (the library's merge closure is exponential on some inputs):
    the caller records the case as inconclusive, never as a verdict"""
    timed_out = True
    returncode = None

    def __init__(self, text):
        self.stdout = "" if text else b""
        self.stderr = "timeout" if text else b"timeout"


def run_bounded(cmd, timeout=120, **kw):
    try:
        return subprocess.run(cmd, timeout=timeout, **kw)
    except subprocess.TimeoutExpired:
        return TimedOut(kw.get("text"))
