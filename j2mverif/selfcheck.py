"""Oracle self-check (MANIFEST.setup_cmd): hand-written good and deliberately broken modules go through the module model
extractor and the acceptance / tightness oracles; every expectation below must hold or the harness is not trusted."""
import sys

from . import mme, oracle

GOOD_DC = '''
from dataclasses import dataclass, field
from typing import Any, Dict, List, Optional, Union
from json_to_models.dynamic_typing import IntString


@dataclass
class Root:
    a: int
    child: 'Child'
    items: List['Child']
    s: IntString = field(metadata={'J2M_ORIGINAL_FIELD': 'S-key'})
    m: Dict[str, Any] = field(default_factory=dict)
    o: Optional[Union[int, str]] = None
    l: Optional[List[int]] = field(default_factory=list)


@dataclass
class Child:
    x: float
'''
GOOD_PYD = '''
from pydantic.v1 import BaseModel, Field
from typing import List, Optional


class Root(BaseModel):
    class Inner(BaseModel):
        v: Optional[int] = None

    user_id: int = Field(..., alias="userId")
    inner: 'Root.Inner'
    tags: Optional[List[str]] = []
'''
GOOD_ATTRS = '''
import attr
from typing import Optional


@attr.s
class Root:
    class_: str = attr.ib(metadata={'J2M_ORIGINAL_FIELD': 'class'})
    n: Optional[int] = attr.ib(default=None)
'''
BROKEN = {
    "compile": "class Root:\n    a: int = = 1\n",
    "exec": "from typing import List\n\n\nclass Root:\n    a: Lisst[int]\n",
    "hints": "class Root:\n    a: 'Missing'\n",
}
WIDE = '''
from dataclasses import dataclass, field
from typing import Any, List, Optional, Union, Literal


@dataclass
class Root:
    a: Optional[int] = None
    b: Union[int, float] = 0
    c: List[Any] = field(default_factory=list)
    d: Literal["x", "y"] = "x"
'''


def expect(cond, what):
    if not cond:
        print("SELFCHECK FAILED:", what)
        sys.exit(1)


def main():
    # --- extractor
    m = mme.load(GOOD_DC)
    t = mme.table(m, "dataclasses")
    r = t["Root"].fields
    expect(set(t) == {"Root", "Child"}, "dataclasses: classes found")
    expect(r["s"].orig == "S-key" and r["s"].orig_explicit, "dataclasses: metadata original key")
    expect(r["m"].default_kind == "dict" and r["l"].default_kind == "list" and r["o"].default_kind == "None" and r["a"].default_kind is None,
           "dataclasses: default kinds")
    expect(r["child"].ann is t["Child"].cls and r["items"].ann.__args__[0] is t["Child"].cls, "dataclasses: forward references resolved")
    fm = oracle.FirstMatch([])
    orc = oracle.Oracle(t, fm, "dataclasses")
    root = t["Root"].cls
    good = {"a": 1, "child": {"x": 1}, "items": [{"x": 2.5}], "S-key": "12", "o": None}
    expect(orc.acceptance([(root, [good])]) == [], "acceptance: good sample accepted")
    for bad, kind in (({"child": {"x": 1}, "items": [], "S-key": "1"}, "required-missing"),
                      ({"a": "1", "child": {"x": 1}, "items": [], "S-key": "1"}, "value-rejected"),
                      ({"a": 1, "child": {"x": 1}, "items": [], "S-key": "1", "zzz": 0}, "unmapped-key"),
                      ({"a": 1, "child": {"x": "no"}, "items": [], "S-key": "1"}, "value-rejected"),
                      ({"a": 1, "child": {"x": 1}, "items": [], "S-key": "twelve"}, "value-rejected"),
                      ({"a": True, "child": {"x": 1}, "items": [], "S-key": "1"}, "value-rejected")):
        o2 = oracle.Oracle(t, fm, "dataclasses")
        errs = o2.acceptance([(root, [bad])])
        expect(errs and errs[0][0] == kind, f"acceptance: {kind} detected for {bad} (got {errs})")
    mme.unload(m)
    m = mme.load(GOOD_PYD)
    t = mme.table(m, "pydantic")
    expect(set(t) == {"Root", "Root.Inner"}, "pydantic: nested class found")
    expect(t["Root"].fields["user_id"].orig == "userId", "pydantic: alias")
    expect(t["Root"].fields["tags"].default_kind == "list" and t["Root.Inner"].fields["v"].default_kind == "None", "pydantic: defaults")
    t["Root"].cls.parse_obj({"userId": 1, "inner": {"v": None}})
    mme.unload(m)
    m = mme.load(GOOD_ATTRS)
    t = mme.table(m, "attrs")
    expect(t["Root"].fields["class_"].orig == "class" and t["Root"].fields["n"].default_kind == "None", "attrs: metadata and default")
    mme.unload(m)
    # --- broken modules
    for stage, code in BROKEN.items():
        try:
            mod = mme.load(code)
            try:
                mme.table(mod, "base")
                ok = False
            except Exception:
                ok = stage == "hints"
            mme.unload(mod)
        except mme.LoadError as e:
            ok = e.stage == stage
        expect(ok, f"broken module ({stage}) is reported at stage {stage}")
    # --- tightness
    m = mme.load(WIDE)
    t = mme.table(m, "dataclasses")
    orc = oracle.Oracle(t, oracle.FirstMatch([]), "dataclasses")
    root = t["Root"].cls
    samples = [{"a": 1, "b": 1, "c": [1], "d": "x"}, {"a": 2, "b": 2, "c": [], "d": "x"}]
    expect(orc.acceptance([(root, samples)]) == [], "tightness: samples accepted")
    kinds = sorted({e[0] + ":" + e[1] for e in orc.tightness()})
    expect(kinds == ["any-unjustified:Root.c", "member-unjustified:Root.b", "member-unjustified:Root.d", "optional-unjustified:Root.a"],
           f"tightness: the four over-wide annotations are flagged (got {kinds})")
    orc = oracle.Oracle(t, oracle.FirstMatch([]), "dataclasses")
    samples = [{"a": None, "b": 1.5, "c": [], "d": "x"}, {"a": 3, "b": 2, "c": [None], "d": "y"}]
    expect(orc.acceptance([(root, samples)]) == [] and orc.tightness() == [], "tightness: justified annotations are not flagged")
    mme.unload(m)
    # --- census
    c = mme.census("from typing import List\nimport attr\n\n\nclass A:\n    class B:\n        x: int\n    y: 'B'\n")
    expect(c["imported"] == {"List", "attr"} and [(k["name"], k["scope"]) for k in c["classes"]] == [("A", ()), ("B", ("A",))], "census")
    print("selfcheck ok")


if __name__ == "__main__":
    main()
