"""pytest plugin (trust building, not a registered check): runs the repository's own tests with the merge monitor
attached to ModelRegistry.merge_models and a resolve-soundness wrapper on StringSerializableRegistry.resolve.
usage: cd /repo && PYTHONPATH=/repo:/verif /venv/bin/python -m pytest -q -p no:cacheprovider -p j2mverif.pytest_plugin"""
import functools

_state = {}


def pytest_configure(config):
    from json_to_models.dynamic_typing import StringSerializableRegistry
    from . import monitors
    mon = monitors.MergeMonitor()
    mon.install()
    _state["mon"] = mon
    _state["resolve_calls"] = 0
    _state["resolve_violations"] = []
    orig = StringSerializableRegistry.resolve
    corpus = ["1", "2.5", "true", "abc", "2018-01-02", "10:30:00", "2018-01-02T10:30:00", "nan", " 7 ", "FALSE"]

    @functools.wraps(orig)
    def resolve(self, *types):
        res = orig(self, *types)
        _state["resolve_calls"] += 1
        try:
            rs = list(res)
            if len(rs) == 1:
                T = rs[0]
                for s in corpus:
                    for M in types:
                        try:
                            M.to_internal_value(s)
                        except Exception:
                            continue
                        try:
                            T.to_internal_value(s)
                        except ValueError:
                            _state["resolve_violations"].append(f"resolve{tuple(t.__name__ for t in types)} = {T.__name__} rejects {s!r} accepted by {M.__name__}")
        except Exception as e:  # never disturb the observed test
            _state["resolve_violations"].append(f"monitor error {e}")
        return res

    StringSerializableRegistry.resolve = resolve


def pytest_terminal_summary(terminalreporter):
    mon = _state.get("mon")
    if not mon:
        return
    tr = terminalreporter
    tr.write_line(f"j2mverif monitors: merge_models calls={mon.stats['calls']} groups={mon.stats['groups']} ptrs_checked={mon.stats['ptrs_checked']} "
                  f"violations={len(mon.violations)}; resolve calls={_state['resolve_calls']} violations={len(_state['resolve_violations'])}")
    for k, m in mon.violations[:10]:
        tr.write_line(f"  MERGE-MONITOR {k}: {m[:300]}")
    for m in _state["resolve_violations"][:10]:
        tr.write_line(f"  RESOLVE-MONITOR {m[:300]}")
