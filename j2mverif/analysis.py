"""One pipeline execution observed by all the program-level monitors (C01 acceptance, C02 tightness, C03 load +
census, C04 IR<->program equivalence).  Every verdict is taken at the API boundary: inputs, options, registry
(public IR), emitted text, loaded module."""
import keyword
import re
import traceback
import typing
from typing import Any, Dict, List, Literal, Optional, Union

from json_to_models.dynamic_typing import (
    DDict, DList, DOptional, DUnion, ModelPtr, Null, StringLiteral, StringSerializable, Unknown,
)

from . import driver, mme, oracle


import unicodedata


def nfkc(s):
    """Python normalises identifiers to NFKC when compiling: compare names in that form"""
    return unicodedata.normalize("NFKC", s) if isinstance(s, str) else s


def exc_site(e: BaseException):
    """innermost json_to_models frame of the traceback: ('file.py', 'function')"""
    tb = traceback.extract_tb(e.__traceback__)
    site = None
    for fr in tb:
        if "json_to_models" in fr.filename:
            site = (fr.filename.rsplit("/", 1)[-1], fr.name)
    return site or ((tb[-1].filename.rsplit("/", 1)[-1], tb[-1].name) if tb else ("?", "?"))


def scrub(s: str) -> str:
    return re.sub(r"j2m_emitted_\d+|0x[0-9a-f]+", "_", s)


def W(prop, mechanism, msg, **kw):
    d = {"property": prop, "mechanism": mechanism, "msg": scrub(str(msg))[:600]}
    d.update(kw)
    return d


def ir_to_typing(meta, style, cls_by_index):
    """independent rendering of an IR node to a typing object, from the documented meaning of the node classes"""
    if isinstance(meta, DOptional):
        return Optional[ir_to_typing(meta.type, style, cls_by_index)]
    if isinstance(meta, DUnion):
        return Union[tuple(ir_to_typing(t, style, cls_by_index) for t in meta.types)]
    if isinstance(meta, DList):
        return List[ir_to_typing(meta.type, style, cls_by_index)]
    if isinstance(meta, DDict):
        return Dict[str, ir_to_typing(meta.type, style, cls_by_index)]
    if isinstance(meta, ModelPtr):
        return cls_by_index[meta.type.index]
    if isinstance(meta, StringLiteral):
        if style["literals"] and not meta.overflowed and meta.literals and len(meta.literals) < style["max_literals"]:
            return Literal[tuple(sorted(meta.literals))]
        return str
    if meta is Unknown:
        return Any
    if meta is Null:
        return type(None)
    if isinstance(meta, type) and issubclass(meta, StringSerializable):
        return meta.actual_type if style["actual"] else meta
    if isinstance(meta, type):
        return meta
    raise TypeError(f"unexpected IR node {meta!r}")


class Analysis:
    def __init__(self, models, opts):
        self.models = models
        self.opts = opts
        self.w = []  # witnesses (dicts with property/mechanism/msg)
        self.blocked = {}  # property -> reason it could not be judged on this execution
        self.stats = {}
        self.run = None
        self.mod = None
        self.tab = None
        self.code = None

    # ------------------------------------------------------------------ stages
    def generate(self):
        try:
            self.run = driver.pipeline(self.models, self.opts)
            self.code = self.run.code
            return True
        except Exception as e:
            if type(e).__name__ == "CaseTimeout":
                raise
            site = exc_site(e)
            self.w.append(W("C01", f"pipeline-exception:{type(e).__name__}@{site[0]}:{site[1]}",
                            f"generation raised {type(e).__name__}: {e}"))
            for p in ("C02", "C03", "C04"):
                self.blocked[p] = "generation raised"
            return False

    def load(self):
        fw = self.opts["framework"]
        try:
            self.mod = mme.load(self.code)
        except mme.LoadError as e:
            line = ""
            if isinstance(e.exc, SyntaxError) and e.exc.lineno:
                lines = self.code.split("\n")
                if 0 < e.exc.lineno <= len(lines):
                    line = lines[e.exc.lineno - 1].strip()
            self.w.append(W("C03", f"load-failure:{e.stage}:{type(e.exc).__name__}",
                            f"emitted module does not load ({e.stage}): {type(e.exc).__name__}: {e.exc} | {line}",
                            exc_msg=scrub(str(e.exc))[:200], line=line[:200]))
            for p in ("C01", "C02", "C04"):
                self.blocked[p] = "emitted module does not load"
            return False
        try:
            self.tab = mme.table(self.mod, fw)
        except Exception as e:
            if type(e).__name__ == "CaseTimeout":
                raise
            self.w.append(W("C03", f"annotation-unresolvable:{type(e).__name__}",
                            f"annotations/field table cannot be evaluated in scope: {type(e).__name__}: {e}",
                            exc_msg=scrub(str(e))[:200]))
            for p in ("C01", "C02", "C04"):
                self.blocked[p] = "annotations do not evaluate"
            return False
        return True

    def class_maps(self):
        """model index -> ClassInfo (by class name), python-name -> keys for frameworks without alias/metadata"""
        reg = self.run.registry
        fw = self.opts["framework"]
        by_name = {}
        for info in self.tab.values():
            by_name.setdefault(nfkc(info.name), []).append(info)
        self.cls_by_index = {}
        self.info_by_index = {}
        self.gens = {}
        kw = driver.generator_kwargs(self.opts)
        ok = True
        for ix, m in reg.models_map.items():
            infos = by_name.get(nfkc(m.name), [])
            if len(infos) != 1:
                ok = False
                continue
            self.cls_by_index[ix] = infos[0].cls
            self.info_by_index[ix] = infos[0]
            self.gens[ix] = driver.FW[fw](m, **kw)
        self.name_to_key = {}
        for ix, m in reg.models_map.items():
            if ix not in self.cls_by_index:
                continue
            n2k = {}
            for key in m.type:
                n2k.setdefault(nfkc(self.gens[ix].convert_field_name(key)), []).append(key)
            self.name_to_key[self.cls_by_index[ix]] = n2k
        return ok

    # ------------------------------------------------------------------ C03
    def c03(self):
        reg = self.run.registry
        fw = self.opts["framework"]
        cen = mme.census(self.code)
        st = self.stats
        st["classes"] = len(cen["classes"])
        st["models"] = len(reg.models_map)
        if len(cen["classes"]) != len(reg.models_map):
            self.w.append(W("C03", "class-count-mismatch",
                            f"{len(cen['classes'])} classes emitted for {len(reg.models_map)} inferred models: "
                            f"{sorted(c['name'] for c in cen['classes'])} vs {sorted(str(m.name) for m in reg.models)}"))
        imported = cen["imported"]
        scopes = {}
        for c in cen["classes"]:
            scopes.setdefault(c["scope"], []).append(c["name"])
            nm = c["name"]
            if not nm.isidentifier() or keyword.iskeyword(nm):
                self.w.append(W("C03", "invalid-class-name", f"class name {nm!r} is not a valid non-keyword identifier", name=nm))
            if nm in imported:
                self.w.append(W("C03", shadow_mech(nm), f"class {nm!r} shadows a name the module imports", name=nm, what="class"))
            seen = set()
            for f in c["fields"]:
                if not f.isidentifier() or keyword.iskeyword(f):
                    self.w.append(W("C03", "invalid-field-name", f"field name {f!r} in class {nm}", name=f))
                if f in seen:
                    self.w.append(W("C03", "duplicate-field-name:" + self.dup_field_kind(nm, f), f"field {f!r} twice in class {nm}", name=f))
                seen.add(f)
                if f in imported:
                    self.w.append(W("C03", shadow_mech(f), f"field {f!r} of class {nm} shadows a name the module imports",
                                    name=f, what="field"))
        fields_of = {c["scope"] + (c["name"],): set(c["fields"]) for c in cen["classes"]}
        for scope, names in scopes.items():
            clash = set(names) & fields_of.get(scope, set())
            if clash:
                self.w.append(W("C03", "class-field-name-clash", f"nested class and field share the name {sorted(clash)} in scope "
                                                                 f"{'.'.join(scope)}", names=sorted(clash)))
            dups = {n for n in names if names.count(n) > 1}
            if dups:
                self.w.append(W("C03", "duplicate-class-name:" + self.dup_class_kind(dups),
                                f"classes {sorted(dups)} defined twice in scope {'.'.join(scope) or '<module>'}"))
        # every leaf of every evaluated annotation is a class or a typing special form
        n_ann = 0
        n_fwd = 0
        for c in cen["classes"]:
            n_fwd += sum(1 for a in c["annotations"] if a and ("'" in a or '"' in a))
        st["forward_refs"] = n_fwd
        if self.tab is not None:
            for info in self.tab.values():
                for f in info.fields.values():
                    n_ann += 1
                    bad = bad_leaf(f.ann)
                    if bad is not None:
                        self.w.append(W("C03", "annotation-not-a-type",
                                        f"annotation of {info.qualname}.{f.name} evaluates to non-type leaf {bad!r}"))
        st["annotations_evaluated"] = n_ann
        return cen

    def dup_class_kind(self, dups):
        """'sanitised' when the models' names before class-name conversion were all distinct (they only collide after
        label sanitising - the known finding), 'raw' when the registry itself handed out one name twice"""
        reg = self.run.registry
        raw = getattr(self.run, "raw_names", {})
        for d in dups:
            ms = [ix for ix, m in reg.models_map.items() if m.name == d]
            raws = [raw.get(ix) for ix in ms]
            if len(set(raws)) != len(raws):
                return "raw"
            # the known finding: names that differ only in what label sanitising removes or transliterates (non-identifier characters,
            # accents with unicode conversion on, the '_' appended to reserved words, the spelled-out leading digit).  Names that are
            # distinct identifiers already (Billing_Shipping / BillingShipping) must stay distinct.
            def canon(r):
                r = str(r)
                if self.opts.get("convert_unicode", True):
                    try:
                        from unidecode import unidecode
                        r = unidecode(r)
                    except Exception:
                        pass
                r = re.sub(r"\W", "", r)
                return r.rstrip("_")
            canons = {canon(r) for r in raws}
            if len(canons) > 1 and not any(c[:1].isdigit() for c in canons):
                return "distinct-identifiers-collapsed"
        return "sanitised"

    def dup_field_kind(self, cls_name, fname):
        """'folded-keys' when >=2 distinct keys of the model map to this field name (known finding), else 'same-key'"""
        reg = self.run.registry
        kw = driver.generator_kwargs(self.opts)
        for ix, m in reg.models_map.items():
            if m.name != cls_name:
                continue
            g = driver.FW[self.opts["framework"]](m, **kw)
            keys = [k for k in m.type if g.convert_field_name(k) == fname]
            if len(keys) >= 2:
                return "folded-keys"
        return "same-key"

    # ------------------------------------------------------------------ C01 / C02
    def c01_c02(self, want_c02=True):
        fw = self.opts["framework"]
        reg = self.run.registry
        st = self.stats
        roots = []
        for (name, samples), ptr in zip(self.models, self.run.root_ptrs):
            cls = self.cls_by_index.get(ptr.type.index)
            if cls is None:
                self.blocked["C01"] = self.blocked["C02"] = "root class not found in module"
                return
            roots.append((cls, samples))
        # (1) pydantic itself as the acceptor
        pyd_fail = []
        if fw in ("pydantic", "sqlmodel"):
            n = 0
            for cls, samples in roots:
                for i, s in enumerate(samples):
                    n += 1
                    try:
                        cls.parse_obj(s)
                    except Exception as e:
                        if type(e).__name__ == "CaseTimeout":
                            raise
                        pyd_fail.append((cls, i, s, e))
                        break
            st["pydantic_parsed"] = n
        # (2) structural acceptor, all frameworks
        fm = oracle.FirstMatch(self.run.str_registry.types)
        max_l = int(self.opts.get("max_literals", 10))
        orc = oracle.Oracle(self.tab, fm, fw, self.name_to_key, literal_rule={"enabled": fw != "attrs" and max_l > 0, "max": max_l})
        self.orc = orc
        errs = orc.acceptance(roots)
        for kind, path, msg in errs[:5]:
            self.w.append(W("C01", kind, f"{path}: {msg}", path=path))
        st.update({f"orc_{k}": v for k, v in orc.stats.items()})
        for cls, i, s, e in pyd_fail:
            mech, msg = explain_pydantic(e, s, structural_ok=not errs, fm=fm)
            for mname in (mech if isinstance(mech, list) else [mech]):
                self.w.append(W("C01", mname, f"{cls.__name__}.parse_obj(sample {i}) failed: {msg}", sample=i))
        if any(w["property"] == "C01" for w in self.w):
            self.blocked["C02"] = "acceptance failed on this execution"
            return
        if want_c02:
            terrs = orc.tightness(check_members=fw not in ("pydantic", "sqlmodel"))
            for kind, where, msg, _ in terrs[:5]:
                self.w.append(W("C02", kind, f"{where}: {msg}", where=where))
            st.update({f"orc_{k}": v for k, v in orc.stats.items()})

    # ------------------------------------------------------------------ C04
    _neutral = None

    def neutral_gen(self, m):
        if self._neutral is None:
            import copy
            try:
                nm = copy.copy(m)
                nm.set_raw_name("Zq9Neutral", generated=False)
                self._neutral = driver.FW[self.opts["framework"]](nm, **driver.generator_kwargs(self.opts))
            except Exception:
                self._neutral = False
        return self._neutral or None

    def c04(self):
        fw = self.opts["framework"]
        reg = self.run.registry
        st = self.stats
        pyd = fw in ("pydantic", "sqlmodel")
        meta_on = bool(self.opts.get("meta")) and fw in ("attrs", "dataclasses")
        style = dict(literals=fw != "attrs", max_literals=int(self.opts.get("max_literals", 10)), actual=pyd)
        n_fields = n_alias = n_default = n_ref = 0
        for ix, m in reg.models_map.items():
            info = self.info_by_index.get(ix)
            if info is None:
                self.w.append(W("C04", "class-missing", f"no unique class named {m.name!r} for model {ix}"))
                continue
            exp = {}
            for key, meta_t in m.type.items():
                if pyd and (meta_t is Unknown or meta_t is Null):
                    continue
                name = nfkc(self.gens[ix].convert_field_name(key))
                # the sanitised key is a function of the key text (and the options), not of the class it sits in: a generator object
                # made for a model with an unrelated name must convert the key to the same text
                if self.neutral_gen(m) is not None:
                    st["c04_neutral_names"] = st.get("c04_neutral_names", 0) + 1
                    nn = nfkc(self._neutral.convert_field_name(key))
                    if nn != name:
                        self.w.append(W("C04", "field-name-depends-on-class-name",
                                        f"key {key!r} of {m.name}: a generator for {m.name} names the field {name!r}, one for a model called "
                                        f"'Zq9Neutral' names it {nn!r}"))
                try:
                    T = ir_to_typing(meta_t, style, self.cls_by_index)
                except KeyError as e:
                    self.w.append(W("C04", "dangling-model-reference", f"field {key!r} of {m.name} refers to unregistered model {e}"))
                    continue
                d = None
                if isinstance(meta_t, DOptional) and fw != "base":
                    d = "list" if isinstance(meta_t.type, DList) else "dict" if isinstance(meta_t.type, DDict) else "None"
                if name in exp:
                    self.w.append(W("C04", "field-name-collision", f"keys {exp[name][3]!r} and {key!r} of {m.name} both map to {name!r}"))
                exp[name] = (T, d, name != key and (pyd or meta_on), key)
            got = info.fields
            for name in sorted(set(exp) | set(got)):
                n_fields += 1
                if name not in got:
                    self.w.append(W("C04", "field-missing", f"{info.qualname}: field {name!r} (key {exp[name][3]!r}) missing from emitted class"))
                    continue
                if name not in exp:
                    self.w.append(W("C04", "field-extra", f"{info.qualname}: emitted field {name!r} has no counterpart in the model"))
                    continue
                T, d, need_orig, key = exp[name]
                f = got[name]
                if f.ann != T:
                    self.w.append(W("C04", "annotation-differs",
                                    f"{info.qualname}.{name}: emitted {oracle.tstr(f.ann)} but the model denotes {oracle.tstr(T)}"))
                if f.default_kind != d:
                    self.w.append(W("C04", "default-differs", f"{info.qualname}.{name}: emitted default {f.default_kind} expected {d} "
                                                             f"for {oracle.tstr(T)}"))
                if need_orig:
                    n_alias += 1
                    if not f.orig_explicit or f.orig != key:
                        self.w.append(W("C04", "original-key-not-recoverable",
                                        f"{info.qualname}.{name}: key {key!r} but attached original is {f.orig!r} (explicit={f.orig_explicit})",
                                        key=key, got=f.orig))
                elif f.orig_explicit and f.orig != key:
                    self.w.append(W("C04", "original-key-wrong", f"{info.qualname}.{name}: key {key!r} but attached original is {f.orig!r}"))
                if d is not None:
                    n_default += 1
                if has_model(T, self.cls_by_index.values()):
                    n_ref += 1
        st.update(c04_fields=n_fields, c04_alias=n_alias, c04_defaults=n_default, c04_refs=n_ref)

    def close(self):
        if self.mod is not None:
            mme.unload(self.mod)


def _at(sample, loc):
    v = sample
    for p in loc:
        try:
            v = v[p]
        except (KeyError, IndexError, TypeError):
            return oracle.MISSING
    return v


def _strings(v):
    """scalar leaves that pydantic's date/time parsers may be handed (strings, and numbers taken as timestamps)"""
    if isinstance(v, (str, int, float)) and not isinstance(v, bool):
        yield v
    elif isinstance(v, dict):
        for x in v.values():
            yield from _strings(x)
    elif isinstance(v, list):
        for x in v:
            yield from _strings(x)


_PYD_ACTUAL = {"date": "IsoDateString", "time": "IsoTimeString", "datetime": "IsoDatetimeString"}


def explain_pydantic(e, sample, structural_ok, fm=None):
    """classify a pydantic rejection.  When the independent structural acceptor accepted the sample, the
    rejection is pydantic-specific; two known causes are recognised from the error records themselves:
    (a) pydantic.v1 rejects None for Optional[List[None]] / Optional[Dict[str, None]];
    (b) pydantic's own parser for date/time/datetime is narrower than the pseudo-type parser that detected
        the string.  Anything else stays unexplained."""
    try:
        errs = e.errors()
    except Exception:
        # not a ValidationError: pydantic.v1's own date/time parsers leak OverflowError for strings such as
        # "-Infinity" or "-7" (tried as a unix timestamp), which aborts parse_obj whenever such a string meets
        # a date/time annotation - even as one member of a Union whose other member would accept it
        if structural_ok and not isinstance(e, ValueError):
            import pydantic.v1.datetime_parse as dp
            for v in _strings(sample):
                for actual in _PYD_ACTUAL:
                    try:
                        getattr(dp, "parse_" + actual)(v)
                    except ValueError:
                        pass
                    except Exception as e2:
                        if type(e2) is type(e) and str(e2) == str(e):
                            return f"pydantic-quirk:parser-leaks-{type(e).__name__}", f"{type(e).__name__}: {e} (string {v!r} -> parse_{actual})"
        return f"pydantic-parse-rejected:{type(e).__name__}", str(e)
    msg = "; ".join(f"{'.'.join(map(str, er['loc']))}: {er['msg']}" for er in errs[:3])
    kinds = sorted({er["type"].split(".")[0] for er in errs})
    causes = set()
    if structural_ok:
        for er in errs:
            v = _at(sample, er["loc"])
            t = er["type"]
            if v is None and t in ("type_error.list", "type_error.dict"):
                causes.add("container-of-None")
            elif isinstance(v, str):
                for actual, pname in _PYD_ACTUAL.items():
                    if t == f"value_error.{actual}" and oracle.p_accepts(driver.STR_CLASSES[pname], v)[0]:
                        if fm is None or fm(v) is driver.STR_CLASSES[pname]:
                            # the detector itself classifies this string as that type (known finding)
                            causes.add(f"narrower-than-detector:{actual}")
                        else:
                            # the string was detected as something else and only *merged* into that type: not the known finding
                            return f"pydantic-rejects-string-merged-into:{actual}", msg + f" (string {v!r} is detected as {getattr(fm(v), '__name__', 'plain')})"
    if causes:
        # one mechanism per recognised cause (a sample may hit several known quirks at once)
        return ["pydantic-quirk:" + c for c in sorted(causes)], msg
    return "pydantic-parse-rejected:" + ",".join(kinds)[:60], msg


import builtins as _builtins

_DOCUMENTED_RESERVED = set(keyword.kwlist) | set(dir(_builtins)) | {"datetime", "time", "date", "defaultdict", "schema"}


def shadow_mech(name):
    """names that label preparation is documented to suffix (keywords, builtins, datetime/time/date/defaultdict/schema)
    must never shadow an import; other imported names (List, Field, attr, ...) are the known finding"""
    return "name-shadows-import:documented-reserved-name" if name in _DOCUMENTED_RESERVED else "name-shadows-import"


def has_model(T, classes):
    cs = set(classes)

    def rec(t):
        if t in cs:
            return True
        return any(rec(a) for a in typing.get_args(t))
    try:
        return rec(T)
    except TypeError:
        return False


def bad_leaf(T):
    """first leaf of an evaluated annotation that is neither a class nor a typing special form"""
    org = typing.get_origin(T)
    if org is Literal:
        return None
    if org is not None:
        for a in typing.get_args(T):
            b = bad_leaf(a)
            if b is not None:
                return b
        return None
    if T is Any or T is type(None) or isinstance(T, type):
        return None
    if isinstance(T, typing.ForwardRef):
        return T
    return T


def run_all(models, opts, props=("C01", "C02", "C03", "C04")):
    a = Analysis(models, opts)
    try:
        if not a.generate():
            return a
        loaded = a.load()
        if "C03" in props or True:
            try:
                a.c03()
            except (SyntaxError, ValueError):
                pass  # text that does not parse / is not encodable source: already reported by load()
        if not loaded:
            return a
        if not a.class_maps():
            for p in ("C01", "C02", "C04"):
                a.blocked.setdefault(p, "class for a model not found uniquely")
            if "C04" in props:
                a.c04()
            return a
        if "C01" in props or "C02" in props:
            a.c01_c02(want_c02="C02" in props)
        if "C04" in props:
            a.c04()
        return a
    finally:
        a.close()
