"""Value/type oracle primitives, written against typing objects and the pseudo-type classes' public parsers only."""
import datetime as _dt
import typing
from typing import Any, Dict, List, Literal, Union

from json_to_models.dynamic_typing import (
    BooleanString, FloatString, IntString, IsoDateString, IsoDatetimeString, IsoTimeString, StringSerializable,
)

MISSING = type("Missing", (), {"__repr__": lambda self: "<missing>"})()
NoneT = type(None)

ACTUAL_TO_PSEUDO = {
    int: [IntString], float: [FloatString, IntString], bool: [BooleanString],
    _dt.date: [IsoDateString], _dt.time: [IsoTimeString], _dt.datetime: [IsoDatetimeString],
}


def p_accepts(P, s: str):
    """(accepted?, non-ValueError exception or None)"""
    try:
        P.to_internal_value(s)
        return True, None
    except ValueError:
        return False, None
    except Exception as e:  # the documented contract is ValueError; anything else is reported by C09
        return False, e


class FirstMatch:
    """the documented detection rule: first registered type whose parser accepts the string"""

    def __init__(self, types):
        self.types = list(types)
        self.cache = {}
        self.odd = []

    def __call__(self, s):
        if s in self.cache:
            return self.cache[s]
        res = None
        for P in self.types:
            ok, exc = p_accepts(P, s)
            if exc is not None:
                self.odd.append((P.__name__, s, type(exc).__name__))
            if ok:
                res = P
                break
        self.cache[s] = res
        return res


def is_pseudo(T):
    return isinstance(T, type) and issubclass(T, StringSerializable)


def split_union(T):
    """-> (optional?, [members])"""
    if typing.get_origin(T) is Union:
        args = typing.get_args(T)
        return (NoneT in args, [a for a in args if a is not NoneT])
    if T is NoneT:
        return (True, [])
    return (False, [T])


def is_anyish(T):
    """Any, or Optional[Any] (3.12 typing does not collapse it)"""
    if T is Any:
        return True
    if typing.get_origin(T) is Union:
        return all(a is Any or a is NoneT for a in typing.get_args(T)) and Any in typing.get_args(T)
    return False


class Oracle:
    """acceptance (C01), routing and tightness (C02) over a class table (mme.table)"""

    def __init__(self, tab, first_match: FirstMatch, framework: str, name_to_key=None, literal_rule=None):
        self.literal_rule = literal_rule  # {"enabled": bool, "max": int} or None (rule for a bare `str` member not judged)
        self.tab = tab
        self.by_cls = {info.cls: info for info in tab.values()}
        self.fm = first_match
        self.framework = framework
        self.actual_types = framework in ("pydantic", "sqlmodel")
        self.name_to_key = name_to_key or {}  # class -> {python name: original key} where no alias/metadata exists
        self.memo = {}
        self.stats = dict(objects=0, positions=0, members=0, optionals=0, literals=0, anys=0, null_dropped=0)
        self.routed = {}
        self.certain = {}
        self._bykey_cache = {}

    # ---- field lookup by original key
    def bykey(self, cls):
        r = self._bykey_cache.get(cls)
        if r is None:
            info = self.by_cls[cls]
            r = {}
            dup = []
            n2k = self.name_to_key.get(cls, {})
            for n, f in info.fields.items():
                keys = [f.orig] if f.orig_explicit else n2k.get(n, [n])
                for k in keys:
                    if k in r:
                        dup.append(k)
                    r[k] = f
            self._bykey_cache[cls] = r = (r, dup)
        return r

    def is_model(self, T):
        return isinstance(T, type) and T in self.by_cls

    # ---- acceptance
    def why_not(self, cls, o, path="$"):
        """None if the class accepts the object, else a (kind, path, message) triple for the first failure"""
        k = (cls, id(o))
        if k in self.memo:
            return self.memo[k]
        self.memo[k] = None  # data is finite and acyclic; placeholder for safety
        bykey, dup = self.bykey(cls)
        res = None
        if dup:
            res = ("key-collision", path, f"keys {dup!r} of class {cls.__name__} share a field")
        if res is None:
            for key, v in o.items():
                f = bykey.get(key)
                if f is None:
                    if self.actual_types and v is None:
                        continue  # may be dropped if every observed value is null: verified after routing
                    res = ("unmapped-key", f"{path}.{key}", f"key {key!r} has no field in class {cls.__name__}")
                    break
                if not self.inh(v, f.ann):
                    res = ("value-rejected", f"{path}.{key}",
                           f"value {short(v)} of key {key!r} not in {tstr(f.ann)} (class {cls.__name__})")
                    break
        if res is None:
            for key, f in bykey.items():
                if key not in o and not self.field_optional(f):
                    res = ("required-missing", f"{path}.{key}",
                           f"field {f.name!r} ({tstr(f.ann)}) of class {cls.__name__} has no default but key {key!r} is absent")
                    break
        self.memo[k] = res
        return res

    def field_optional(self, f):
        if self.framework == "base":
            # `base` has no default syntax at all: "without default" is read as "annotation not Optional"
            return split_union(f.ann)[0] or f.ann is Any
        return f.has_default

    def inh(self, v, T):
        if T is Any:
            return True
        if v is None:
            return T is NoneT or (typing.get_origin(T) is Union and NoneT in typing.get_args(T))
        org = typing.get_origin(T)
        if org is Union:
            return any(self.inh(v, a) for a in typing.get_args(T) if a is not NoneT)
        tv = type(v)
        if org is Literal:
            return tv is str and v in typing.get_args(T)
        if org in (list, List):
            return tv is list and all(self.inh(e, typing.get_args(T)[0]) for e in v)
        if org in (dict, Dict):
            return tv is dict and all(self.inh(e, typing.get_args(T)[1]) for e in v.values())
        if self.is_model(T):
            return tv is dict and self.why_not(T, v) is None
        if is_pseudo(T):
            return tv is str and p_accepts(T, v)[0]
        if T is bool:
            return tv is bool or (self.actual_types and tv is str and p_accepts(BooleanString, v)[0])
        if T is int:
            return tv is int or (self.actual_types and tv is str and p_accepts(IntString, v)[0])
        if T is float:
            return tv in (int, float) or (self.actual_types and tv is str and p_accepts(FloatString, v)[0])
        if T is str:
            return tv is str
        if self.actual_types and T in ACTUAL_TO_PSEUDO:
            return tv is str and any(p_accepts(P, v)[0] for P in ACTUAL_TO_PSEUDO[T])
        return False

    # ---- routing
    # An object is routed to every union member that accepts it (lenient; used for the positive, justifying
    # rules).  A routing is *certain* when on its whole path every union had exactly one accepting member; the
    # negative rule (Any only where every container was empty) looks at certain routings only.
    def route(self, root, samples):
        work = [(root, s, True) for s in samples]
        while work:
            cls, o, certain = work.pop()
            d = self.routed.setdefault(cls, {})
            c = self.certain.setdefault(cls, {})
            if id(o) in d and (c[id(o)] or not certain):
                continue
            d[id(o)] = o
            c[id(o)] = c.get(id(o), False) or certain
            bykey, _ = self.bykey(cls)
            for key, v in o.items():
                f = bykey.get(key)
                if f is not None:
                    self.descend(v, f.ann, work, certain)

    def descend(self, v, T, work, certain):
        if v is None or T is Any:
            return
        org = typing.get_origin(T)
        if org is Union:
            acc = [a for a in typing.get_args(T) if a is not NoneT and self.inh(v, a)]
            for a in acc:
                self.descend(v, a, work, certain and len(acc) == 1)
        elif org in (list, List) and type(v) is list:
            for e in v:
                self.descend(e, typing.get_args(T)[0], work, certain)
        elif org in (dict, Dict) and type(v) is dict:
            for e in v.values():
                self.descend(e, typing.get_args(T)[1], work, certain)
        elif self.is_model(T) and type(v) is dict and self.why_not(T, v) is None:
            work.append((T, v, certain))

    # ---- the C01 structural verdict
    def acceptance(self, roots_samples):
        """roots_samples: list of (root class, samples). Returns list of witnesses (kind, path, msg)."""
        errs = []
        for root, samples in roots_samples:
            for i, s in enumerate(samples):
                w = self.why_not(root, s, path=f"$[{i}]")
                if w is not None:
                    errs.append(self.deepest(root, s, w, f"$[{i}]"))
        if errs:
            return errs
        for root, samples in roots_samples:
            self.route(root, samples)
        # dropped keys: allowed only if every observed value is null (pydantic/sqlmodel)
        for cls, objs in self.routed.items():
            bykey, _ = self.bykey(cls)
            self.stats["objects"] += len(objs)
            for o in objs.values():
                for key, v in o.items():
                    if key not in bykey:
                        self.stats["null_dropped"] += 1
                        if any(o2.get(key) is not None for o2 in objs.values()):
                            errs.append(("unmapped-key", cls.__name__ + "." + key,
                                         f"key {key!r} dropped from class {cls.__name__} although a non-null value was observed"))
        return errs

    def deepest(self, cls, o, w, path):
        """localise a rejection to the innermost failing object/class (only run on failures)"""
        return self._explain_obj(cls, o, path) or w

    def _explain_obj(self, cls, o, path):
        bykey, dup = self.bykey(cls)
        if dup:
            return ("key-collision", path, f"keys {dup!r} of class {cls.__name__} share a field")
        for key, v in o.items():
            f = bykey.get(key)
            if f is None:
                if self.actual_types and v is None:
                    continue
                return ("unmapped-key", f"{path}.{key}", f"key {key!r} has no field in class {cls.__name__}")
            if not self.inh(v, f.ann):
                return self._explain_val(v, f.ann, f"{path}.{key}") or \
                    ("value-rejected", f"{path}.{key}", f"value {short(v)} of key {key!r} not in {tstr(f.ann)} (class {cls.__name__})")
        for key, f in bykey.items():
            if key not in o and not self.field_optional(f):
                return ("required-missing", f"{path}.{key}",
                        f"field {f.name!r} ({tstr(f.ann)}) of class {cls.__name__} has no default but key {key!r} is absent")
        return None

    def _explain_val(self, v, T, path):
        if v is None:
            return ("value-rejected", path, f"null not in {tstr(T)}")
        org = typing.get_origin(T)
        if org is Union:
            members = [a for a in typing.get_args(T) if a is not NoneT]
            cands = [a for a in members
                     if (type(v) is dict and (self.is_model(a) or typing.get_origin(a) in (dict, Dict)))
                     or (type(v) is list and typing.get_origin(a) in (list, List))]
            if len(cands) == 1:
                return self._explain_val(v, cands[0], path)
            return ("value-rejected", path, f"value {short(v)} not in {tstr(T)}")
        if org in (list, List) and type(v) is list:
            E = typing.get_args(T)[0]
            for i, e in enumerate(v):
                if not self.inh(e, E):
                    return self._explain_val(e, E, f"{path}[{i}]")
        if org in (dict, Dict) and type(v) is dict:
            E = typing.get_args(T)[1]
            for k, e in v.items():
                if not self.inh(e, E):
                    return self._explain_val(e, E, f"{path}{{{k}}}")
        if self.is_model(T) and type(v) is dict:
            return self._explain_obj(T, v, path)
        return ("value-rejected", path, f"value {short(v)} not in {tstr(T)}")

    # ---- the C02 tightness verdict (call after acceptance() returned no errors)
    def tightness(self, check_members=True):
        errs = []
        for cls, objs in self.routed.items():
            cert = self.certain[cls]
            items = [(o, cert[i]) for i, o in objs.items()]
            bykey, _ = self.bykey(cls)
            for key, f in bykey.items():
                vals = [(o.get(key, MISSING), c) for o, c in items]
                self._tight(f.ann, vals, f"{cls.__name__}.{key}", errs, check_members=check_members)
        return errs

    def _tight(self, T, cvals, where, errs, check_members=True):
        """cvals: list of (value, certain)"""
        self.stats["positions"] += 1
        if is_anyish(T):
            self.stats["anys"] += 1
            errs.append(("any-outside-container", where, f"{tstr(T)} at a position that is not a container element", None))
            return
        opt, members = split_union(T)
        if opt:
            self.stats["optionals"] += 1
            if not any(v is None or v is MISSING for v, _ in cvals):
                errs.append(("optional-unjustified", where,
                             f"{tstr(T)} but no routed object lacks the key or holds null ({len(cvals)} values)", None))
        cvals = [(v, c) for v, c in cvals if v is not None and v is not MISSING]
        vals = [v for v, _ in cvals]
        accepted_by = {id(v): [M for M in members if self.inh(v, M)] for v in vals}
        for M in members:
            self.stats["members"] += 1
            if M is Any:
                self.stats["anys"] += 1
                errs.append(("any-outside-container", where, f"Any as a member of {tstr(T)}", None))
                continue
            b = [(v, c and len(accepted_by[id(v)]) == 1) for v, c in cvals if any(M is x for x in accepted_by[id(v)])]
            bv = [v for v, _ in b]
            org = typing.get_origin(M)
            if check_members:
                ok = bool(bv)
                why = "no routed value inhabits it"
                if M is float:
                    ok = any(type(v) is float for v in bv)
                    why = "no float value routed here (ints alone do not justify float)"
                elif is_pseudo(M):
                    ok = any(self.fm(v) is M for v in bv)
                    why = "no routed string is detected as this pseudo-type"
                elif M is str and ok and self.literal_rule is not None and self.literal_rule["enabled"]:
                    # documented widenings only: literals overflow to str (a string of >= 20 chars, > 15 distinct, or as many as
                    # the configured maximum), or several pseudo-types collapse to str
                    strs = [v for v in vals if type(v) is str]
                    plain = {v for v in strs if self.fm(v) is None}
                    pseudo = {self.fm(v).__name__ for v in strs if self.fm(v) is not None}
                    conflict = len(pseudo) >= 2 and pseudo != {"IntString", "FloatString"}
                    overflow = any(len(x) >= 20 for x in plain) or len(plain) > 15 or len(plain) >= self.literal_rule["max"]
                    self.stats["str_members"] = self.stats.get("str_members", 0) + 1
                    if not (conflict or overflow):
                        ok = False
                        why = (f"str although the {len(plain)} plain strings {short(sorted(plain), 80)} fit a Literal (limit {self.literal_rule['max']}) and the "
                               f"pseudo-types seen ({sorted(pseudo)}) do not conflict")
                elif org is Literal:
                    self.stats["literals"] += 1
                    plain = {v for v in vals if type(v) is str and self.fm(v) is None}
                    extra = set(typing.get_args(M)) - plain
                    ok = not extra
                    why = f"literal values {sorted(extra)!r} were not observed as plain strings here"
                if not ok:
                    errs.append(("member-unjustified", where, f"member {tstr(M)} of {tstr(T)}: {why}; values {short(vals)}", None))
            if org in (list, List) or org in (dict, Dict):
                E = typing.get_args(M)[0 if org in (list, List) else 1]
                if org in (list, List):
                    elems = [(e, c) for lst, c in b for e in lst]
                else:
                    elems = [(e, c) for d, c in b for e in d.values()]
                if is_anyish(E):
                    self.stats["anys"] += 1
                    bad = [e for e, c in elems if c and e is not None]
                    if bad:
                        errs.append(("any-unjustified", where,
                                     f"{tstr(M)} although non-null elements were observed in containers certainly routed here: {short(bad)}", None))
                else:
                    self._tight(E, elems, where + ("[]" if org in (list, List) else "{}"), errs, check_members=check_members)


def short(v, n=160):
    s = repr(v)
    return s if len(s) <= n else s[:n] + "…"


def tstr(T):
    s = getattr(T, "__name__", None) if isinstance(T, type) else None
    if s:
        return s
    s = str(T).replace("typing.", "")
    import re
    return re.sub(r"j2m_emitted_\d+\.", "", s)


# ----------------------------------------------------------------------------------------------------------
# canonical unfolding of a class table (C07, C12)

def canon_cls(oracle_or_tab, cls, by_cls, stack=(), key_of=None):
    if cls in stack:
        return ("rec", len(stack) - stack.index(cls))
    st = stack + (cls,)
    info = by_cls[cls]
    items = []
    for n, f in info.fields.items():
        k = key_of(cls, f) if key_of else f.orig
        items.append((k, f.default_kind, canon_t(f.ann, by_cls, st, key_of)))
    return ("M", frozenset(items))


def canon_t(T, by_cls, st, key_of=None):
    org = typing.get_origin(T)
    if org is Union:
        # two distinct classes of identical structure (duplicate names with numeric suffixes) are one type here
        ms = frozenset(canon_t(a, by_cls, st, key_of) for a in typing.get_args(T))
        return next(iter(ms)) if len(ms) == 1 else ("U", ms)
    if org in (list, List):
        return ("L", canon_t(typing.get_args(T)[0], by_cls, st, key_of))
    if org in (dict, Dict):
        return ("D", canon_t(typing.get_args(T)[1], by_cls, st, key_of))
    if org is Literal:
        return ("Lit", frozenset(typing.get_args(T)))
    if isinstance(T, type) and T in by_cls:
        return canon_cls(None, T, by_cls, st, key_of)
    if T is Any:
        return "Any"
    return getattr(T, "__name__", str(T))


def norm_t(T, by_cls):
    """name-based, order-insensitive normal form of a typing object (class identity by simple name)"""
    org = typing.get_origin(T)
    if org is Union:
        return ("U", frozenset(norm_t(a, by_cls) for a in typing.get_args(T)))
    if org in (list, List):
        return ("L", norm_t(typing.get_args(T)[0], by_cls))
    if org in (dict, Dict):
        return ("D", norm_t(typing.get_args(T)[1], by_cls))
    if org is Literal:
        return ("Lit", frozenset(typing.get_args(T)))
    if isinstance(T, type) and T in by_cls:
        return ("cls", by_cls[T].name)
    if T is Any:
        return "Any"
    if isinstance(T, type):
        return T.__module__.split(".")[0] + ":" + T.__name__
    return str(T)
