"""Entry point: bin/check <ID> [--tier quick|thorough] [--replay FILE]"""
import argparse
import importlib
import json
import os
import sys


def main():
    ap = argparse.ArgumentParser()
    ap.add_argument("prop")
    ap.add_argument("--tier", default=None)
    ap.add_argument("--replay", default=None)
    ap.add_argument("--seed", default=None)
    ap.add_argument("--shrink", action="store_true")
    ns = ap.parse_args()
    for stream in (sys.stdout, sys.stderr):
        try:
            stream.reconfigure(errors="backslashreplace")  # witnesses may quote sample strings with unpaired surrogates
        except Exception:
            pass
    if ns.tier:
        os.environ["VERIF_TIER"] = ns.tier
    if ns.seed is not None:
        os.environ["VERIF_SEED"] = str(ns.seed)
    os.environ.setdefault("VERIF_TIER", "quick")
    if os.environ["VERIF_TIER"] not in ("quick", "thorough"):
        os.environ["VERIF_TIER"] = "quick"
    mod = importlib.import_module(f"j2mverif.checks.{ns.prop.lower()}")
    if ns.replay:
        with open(ns.replay) as f:
            rep = json.load(f)
        if not hasattr(mod, "run_case"):
            # subprocess-level checks (C06, C16, C17, C19): the case list is a pure function of (tier, seed); replay = re-run with them
            os.environ["VERIF_SEED"] = str(rep.get("seed", 0))
            os.environ["VERIF_TIER"] = rep.get("tier", "quick")
            print(f"replaying {ns.prop} with VERIF_SEED={rep.get('seed')} VERIF_TIER={rep.get('tier')}; recorded witness: {rep['witness'].get('msg', '')[:300]}")
            sys.exit(mod.main())
        if hasattr(mod, "setup_worker"):
            mod.setup_worker()
        r = mod.run_case(rep["case"])
        if ns.shrink and r.get("witnesses"):
            from .shrink import shrink
            mech = rep.get("mechanism") or r["witnesses"][0]["mechanism"]

            def still(c):
                rr = mod.run_case(c)
                return any(w["mechanism"] == mech for w in rr.get("witnesses") or [])
            small = shrink(rep["case"], still)
            print(json.dumps({"models": small["models"], "opts": small["opts"]}, ensure_ascii=False))
            r = mod.run_case(small)
        print(json.dumps(r, indent=1, default=repr, ensure_ascii=False))
        sys.exit(1 if r.get("status") == "violated" else 0)
    sys.exit(mod.main())


if __name__ == "__main__":
    main()
