"""Module model extractor: executes emitted code in a fresh module namespace and builds a class table from the
frameworks' own introspection APIs.  Uses only ast / typing / attrs / dataclasses / pydantic.v1 public calls."""
import ast
import dataclasses
import os
import itertools
import sys
import types
import typing
from typing import Any

_counter = itertools.count()


class LoadError(Exception):
    def __init__(self, stage, exc, detail=""):
        super().__init__(f"{stage}: {type(exc).__name__}: {exc}")
        self.stage = stage
        self.exc = exc
        self.detail = detail


class FieldInfo:
    __slots__ = ("name", "orig", "orig_explicit", "ann", "default_kind", "converter")

    def __init__(self, name, orig, orig_explicit, ann, default_kind, converter=None):
        self.name = name
        self.orig = orig  # original JSON key as attached to the field (alias / metadata) or name
        self.orig_explicit = orig_explicit  # True when an alias/metadata entry exists
        self.ann = ann
        self.default_kind = default_kind  # None | "None" | "list" | "dict" | other repr
        self.converter = converter

    @property
    def has_default(self):
        return self.default_kind is not None

    def view(self):
        return (self.name, self.orig, str(self.ann), self.default_kind)


class ClassInfo:
    def __init__(self, cls, qualname, chain):
        self.cls = cls
        self.qualname = qualname
        self.chain = chain  # enclosing classes, outermost first
        self.fields = {}  # python name -> FieldInfo
        self.hints_error = None

    @property
    def name(self):
        return self.qualname.split(".")[-1]


def load(code: str):
    """compile + exec the emitted text as a module of its own"""
    name = f"j2m_emitted_{next(_counter)}"
    try:
        compiled = compile(code, name, "exec")
    except SyntaxError as e:
        raise LoadError("compile", e, detail=(e.text or "")[:200])
    except (ValueError, RecursionError, MemoryError, OverflowError) as e:
        # text that is not even encodable source (unpaired surrogate -> UnicodeEncodeError, NUL byte -> ValueError) or that the compiler gives up on
        raise LoadError("compile", e)
    mod = types.ModuleType(name)
    sys.modules[name] = mod
    try:
        exec(compiled, mod.__dict__)
    except BaseException as e:
        sys.modules.pop(name, None)
        if isinstance(e, (KeyboardInterrupt, SystemExit)):
            raise
        if type(e).__name__ == "CaseTimeout":
            raise
        raise LoadError("exec", e)
    return mod


def unload(mod):
    sys.modules.pop(mod.__name__, None)


def classes_of(mod):
    """classes defined by the module (recursively through class bodies), in definition order"""
    out = {}

    def rec(ns, chain):
        for n, c in list(ns.items()):
            if isinstance(c, type) and c.__module__ == mod.__name__ and c.__qualname__.split(".")[-1] == n:
                if c.__qualname__ in out or any(c is x.cls for x in out.values()):
                    continue
                out[c.__qualname__] = ClassInfo(c, c.__qualname__, list(chain))
                rec(vars(c), chain + [c])

    rec(vars(mod), [])
    return out


def hints(mod, info: ClassInfo):
    """evaluate the class's own annotations in its scope: module globals + the class's own namespace (what
    typing.get_type_hints(cls) itself uses; enclosing class bodies are not a scope in Python).  A throw-away holder class is used so that typing.get_type_hints (public API) does not
    walk the framework base classes."""
    localns = {}
    strict = os.environ.get("J2M_VERIF_STRICT_SCOPE", "1") == "1"
    for c in ([] if strict else info.chain) + [info.cls]:
        localns.update({k: v for k, v in vars(c).items() if isinstance(v, type)})
    anns = dict(vars(info.cls).get("__annotations__", {}))
    holder = type("_Holder", (), {"__annotations__": anns})
    return typing.get_type_hints(holder, globalns=dict(vars(mod)), localns=localns)


def update_forward_refs(mod, table):
    import pydantic.v1 as pv1
    for info in table.values():
        if issubclass(info.cls, pv1.BaseModel):
            # scope of an annotation = module globals + the namespace of the class that carries it (class bodies do not nest scopes)
            localns = {k: v for k, v in vars(info.cls).items() if isinstance(v, type)}
            if os.environ.get("J2M_VERIF_STRICT_SCOPE", "1") != "1":
                for c in info.chain:
                    localns.update({k: v for k, v in vars(c).items() if isinstance(v, type)})
            info.cls.update_forward_refs(**localns)


def table(mod, framework):
    """class table: qualname -> ClassInfo with FieldInfo per field (framework introspection)"""
    tab = classes_of(mod)
    if framework in ("pydantic", "sqlmodel"):
        update_forward_refs(mod, tab)
    for info in tab.values():
        cls = info.cls
        h = hints(mod, info)
        if framework in ("pydantic", "sqlmodel"):
            for n, f in cls.__fields__.items():
                if f.required:
                    d = None
                else:
                    dv = f.default
                    if f.default_factory is not None:
                        dv = f.default_factory()
                    d = "list" if isinstance(dv, list) and dv == [] else "dict" if isinstance(dv, dict) and dv == {} \
                        else "None" if dv is None else repr(dv)
                info.fields[n] = FieldInfo(n, f.alias, f.alias != n, h.get(n, f.outer_type_), d)
        elif framework == "attrs":
            import attr
            for a in attr.fields(cls):
                dv = a.default
                if dv is attr.NOTHING:
                    d = None
                elif isinstance(dv, attr.Factory):
                    d = "list" if dv.factory is list else "dict" if dv.factory is dict else repr(dv)
                else:
                    d = "None" if dv is None else repr(dv)
                explicit = "J2M_ORIGINAL_FIELD" in a.metadata
                info.fields[a.name] = FieldInfo(a.name, a.metadata.get("J2M_ORIGINAL_FIELD", a.name), explicit,
                                                h.get(a.name, Any), d, a.converter)
        elif framework == "dataclasses":
            for f in dataclasses.fields(cls):
                if f.default is not dataclasses.MISSING:
                    d = "None" if f.default is None else repr(f.default)
                elif f.default_factory is not dataclasses.MISSING:
                    d = "list" if f.default_factory is list else "dict" if f.default_factory is dict else repr(f.default_factory)
                else:
                    d = None
                explicit = "J2M_ORIGINAL_FIELD" in f.metadata
                info.fields[f.name] = FieldInfo(f.name, f.metadata.get("J2M_ORIGINAL_FIELD", f.name), explicit,
                                                h.get(f.name, Any), d)
        else:  # base: plain annotated class, no default syntax at all
            for n, T in h.items():
                d = None
                if n in vars(cls):
                    v = vars(cls)[n]
                    d = "None" if v is None else repr(v)
                info.fields[n] = FieldInfo(n, n, False, T, d)
    return tab


# ----------------------------------------------------------------------------------------------------------
# ast census

def census(code: str):
    tree = ast.parse(code)
    imported = set()
    for node in tree.body:
        if isinstance(node, ast.ImportFrom):
            imported |= {a.asname or a.name for a in node.names}
        elif isinstance(node, ast.Import):
            imported |= {(a.asname or a.name).split(".")[0] for a in node.names}
    classes = []

    def rec(body, scope):
        for node in body:
            if isinstance(node, ast.ClassDef):
                fields = [st.target.id for st in node.body if isinstance(st, ast.AnnAssign) and isinstance(st.target, ast.Name)]
                anns = [ast.get_source_segment(code, st.annotation) for st in node.body if isinstance(st, ast.AnnAssign)]
                classes.append({"name": node.name, "scope": scope, "fields": fields, "annotations": anns, "lineno": node.lineno})
                rec(node.body, scope + (node.name,))

    rec(tree.body, ())
    return {"imported": imported, "classes": classes, "tree": tree}
