"""Boundary monitors that attach to the real API objects of json_to_models from outside (no edits to /repo).

merge monitor (C05): wraps ModelRegistry.merge_models; snapshots the registry before the call, computes the reference
partition (union-find over the documented comparators on the original key sets) and checks the result and the pointer
graph after the call.  Violations are recorded, never raised, so the observed execution continues unchanged."""
import functools

from json_to_models.dynamic_typing import (
    BaseType, DDict, DList, DOptional, DUnion, ModelMeta, ModelPtr, Null, StringLiteral, Unknown,
)
from json_to_models.registry import (
    ModelCmp, ModelFieldsEquals, ModelFieldsNumberMatch, ModelFieldsPercentMatch, ModelRegistry,
)


# ---------------------------------------------------------------------------------------------------------
# independent reference semantics of the comparators

def ref_cmp(cmp: ModelCmp, a: frozenset, b: frozenset) -> bool:
    if isinstance(cmp, TableCmp):
        return cmp.answer(a, b)
    if type(cmp) is ModelFieldsEquals:
        return a == b
    if type(cmp) is ModelFieldsPercentMatch:
        return len(a & b) / len(a | b) >= cmp.percent_fields
    if type(cmp) is ModelFieldsNumberMatch:
        return len(a & b) >= cmp.number_fields
    raise NotImplementedError(type(cmp))


class TableCmp(ModelCmp):
    """table-driven comparator for the exhaustive similarity-graph workload: models are identified by their
    single 'u<i>' key; the edge table says which pairs are similar."""

    def __init__(self, edges):
        self.edges = {frozenset(e) for e in edges}
        self.calls = 0

    @staticmethod
    def ident(keys):
        for k in keys:
            if k[0] == "u" and k[1:].isdigit():
                return int(k[1:])
        return None

    def answer(self, a, b):
        ia, ib = self.ident(a), self.ident(b)
        if ia is None or ib is None or ia == ib:
            return False
        return frozenset((ia, ib)) in self.edges

    def cmp(self, fields_a: set, fields_b: set) -> bool:
        self.calls += 1
        return self.answer(fields_a, fields_b)


def ref_partition(keysets: dict, cmps):
    """keysets: index -> frozenset(keys). Connected components of the 'any comparator accepts' relation."""
    parent = {i: i for i in keysets}

    def find(x):
        while parent[x] != x:
            parent[x] = parent[parent[x]]
            x = parent[x]
        return x

    idx = list(keysets)
    edges = 0
    for i, a in enumerate(idx):
        for b in idx[i + 1:]:
            if any(ref_cmp(c, keysets[a], keysets[b]) for c in cmps):
                edges += 1
                parent[find(a)] = find(b)
    comps = {}
    for i in idx:
        comps.setdefault(find(i), set()).add(i)
    return {frozenset(c) for c in comps.values()}, edges


def iter_ptrs(t):
    if isinstance(t, ModelPtr):
        yield t
        return
    if isinstance(t, dict):
        for v in t.values():
            yield from iter_ptrs(v)
    elif isinstance(t, BaseType):
        for c in t:
            yield from iter_ptrs(c)


def dump_type(t, comp_of, dedupe=False):
    """structural dump of an IR type; model pointers are rendered by the component of the pointed model so that
    the (legitimate) retargeting of pointers to merged models is invisible"""
    if isinstance(t, ModelPtr):
        c = comp_of(t.type)
        # a canonical spelling: two equal frozensets may iterate (and so print, and so sort) differently
        return ("ptr", tuple(sorted(c, key=str)) if isinstance(c, (set, frozenset)) else c)
    if isinstance(t, DOptional):
        return ("opt", dump_type(t.type, comp_of, dedupe))
    if isinstance(t, DUnion):
        ms = [dump_type(x, comp_of, dedupe) for x in t.types]
        if dedupe:
            # pointers to models of one merge component become one member once the component is merged
            ms = list({repr(m): m for m in ms}.values())
            if len(ms) == 1:
                return ms[0]
        return ("union", tuple(sorted(ms, key=repr)))
    if isinstance(t, DList):
        return ("list", dump_type(t.type, comp_of, dedupe))
    if isinstance(t, DDict):
        return ("dict", dump_type(t.type, comp_of, dedupe))
    if isinstance(t, StringLiteral):
        return ("lit", tuple(sorted(t.literals)), t.overflowed)
    if t is Null:
        return "null"
    if t is Unknown:
        return "unknown"
    if isinstance(t, type):
        return t.__name__
    if isinstance(t, dict):
        return ("fields", tuple((k, dump_type(v, comp_of, dedupe)) for k, v in t.items()))
    return repr(t)


class MergeMonitor:
    def __init__(self):
        self.violations = []
        self.stats = dict(calls=0, models_before=0, pairs=0, edges=0, groups=0, groups_ge3=0, nonclique_groups=0,
                          ptrs_checked=0, untouched_checked=0, chains_only=0)
        self._orig = None

    def install(self):
        if self._orig is not None:
            return
        self._orig = ModelRegistry.merge_models
        mon = self
        orig = self._orig

        @functools.wraps(orig)
        def merge_models(reg, generator, *a, **kw):
            snap = mon.before(reg)
            res = orig(reg, generator, *a, **kw)
            try:
                mon.after(reg, snap, res)
            except Exception as e:  # the monitor itself must never disturb the observed run
                mon.violations.append(("monitor-error", f"{type(e).__name__}: {e}"))
            return res

        ModelRegistry.merge_models = merge_models

    def uninstall(self):
        if self._orig is not None:
            ModelRegistry.merge_models = self._orig
            self._orig = None

    # -- snapshot
    def before(self, reg):
        models = list(reg.models)
        keysets = {m.index: frozenset(m.type.keys()) for m in models}
        expected, edges = ref_partition(keysets, reg._models_cmp)
        comp_by_index = {}
        for c in expected:
            for i in c:
                comp_by_index[i] = c
        dumps = {m.index: dump_type(m.type, lambda mm: comp_by_index.get(mm.index, mm.index), dedupe=True) for m in models}
        # clique test on the relation for non-triviality accounting
        def is_clique(c):
            c = list(c)
            return all(any(ref_cmp(x, keysets[a], keysets[b]) for x in reg._models_cmp)
                       for i, a in enumerate(c) for b in c[i + 1:])
        st = self.stats
        st["calls"] += 1
        st["models_before"] += len(models)
        st["pairs"] += len(models) * (len(models) - 1) // 2
        st["edges"] += edges
        big = [c for c in expected if len(c) >= 2]
        st["groups"] += len(big)
        st["groups_ge3"] += sum(1 for c in big if len(c) >= 3)
        nonclique = sum(1 for c in big if len(c) >= 3 and not is_clique(c))
        st["nonclique_groups"] += nonclique
        all_ptrs = [p for m in models for p in m.pointers]
        return dict(all_ptrs=all_ptrs, models={m.index: m for m in models}, keysets=keysets, expected=expected, comp_by_index=comp_by_index,
                    dumps=dumps, nonclique=nonclique, n=len(models), groups=len(big))

    # -- verdict
    def after(self, reg, snap, res):
        V = self.violations
        exp_groups = {c for c in snap["expected"] if len(c) >= 2}
        try:
            got_groups = {frozenset(m.index for m in old) for _new, old in res}
        except Exception as e:
            V.append(("replacement-list-malformed", f"{type(e).__name__}: {e}"))
            return
        if got_groups != exp_groups:
            missing = [sorted(g) for g in exp_groups - got_groups]
            extra = [sorted(g) for g in got_groups - exp_groups]
            keys = {i: sorted(snap["keysets"][i]) for g in (exp_groups ^ got_groups) for i in g}
            V.append(("partition-differs",
                      f"merged groups differ from the connected components of the similarity relation: expected-but-absent "
                      f"{missing}, merged-but-unrelated {extra}; key sets {keys}"))
        merged_old = set().union(*got_groups) if got_groups else set()
        now = reg.models_map
        new_indices = set()
        for new, old in res:
            new_indices.add(new.index)
            want = set().union(*(snap["keysets"][m.index] for m in old if m.index in snap["keysets"]))
            if set(new.type.keys()) != want:
                V.append(("merged-fields-not-union", f"merged model {new.index} has keys {sorted(new.type.keys())}, union of "
                                                     f"members {sorted(m.index for m in old)} is {sorted(want)}"))
            if now.get(new.index) is not new:
                V.append(("merged-model-unregistered", f"merged model {new.index} reported but not registered"))
        want_registry = new_indices | (set(snap["models"]) - merged_old)
        if set(now) != want_registry:
            V.append(("registry-content-differs", f"registry holds {sorted(now)}, expected merged+untouched {sorted(want_registry)}"))
        # untouched models unchanged
        new_comp = {}
        for new, old in res:
            comp = frozenset(m.index for m in old)
            new_comp[new.index] = comp

        def comp_of(mm):
            if mm.index in new_comp:
                return new_comp[mm.index]
            return snap["comp_by_index"].get(mm.index, mm.index)

        for ix, m in snap["models"].items():
            if ix in merged_old:
                continue
            self.stats["untouched_checked"] += 1
            if now.get(ix) is not m:
                V.append(("untouched-model-replaced", f"model {ix} is not in any merge group but is no longer the registered object"))
                continue
            d = dump_type(m.type, comp_of, dedupe=True)
            if d != snap["dumps"][ix]:
                V.append(("untouched-model-changed", f"model {ix} is in no merge group but changed: before {snap['dumps'][ix]!r:.300} "
                                                     f"after {d!r:.300}"))
        # pointer integrity: every pointer object that existed before the call (including the root pointers handed
        # out by process_meta_data, which live in no field) must now point to a registered model
        for ptr in snap["all_ptrs"]:
            self.stats["ptrs_checked"] += 1
            tgt = ptr.type
            if now.get(getattr(tgt, "index", None)) is not tgt:
                V.append(("dangling-pointer", f"a pointer (parent {getattr(ptr.parent, 'index', None)}, field {ptr.parent_field_name!r}) "
                                              f"still points to model {getattr(tgt, 'index', tgt)} which is no longer registered"))
        for ix, m in now.items():
            for ptr in iter_ptrs(m.type):
                self.stats["ptrs_checked"] += 1
                tgt = ptr.type
                if now.get(getattr(tgt, "index", None)) is not tgt:
                    V.append(("dangling-pointer", f"field of model {ix} points to model {getattr(tgt, 'index', tgt)} which is not registered"))
                elif ptr not in tgt.pointers:
                    V.append(("pointer-not-back-linked", f"pointer in model {ix} to {tgt.index} is missing from the target's pointer set"))
                if ptr.parent is not m:
                    V.append(("pointer-parent-stale", f"pointer found in a field of model {ix} names model "
                                                      f"{getattr(ptr.parent, 'index', None)} as its parent"))
            for ptr in m.pointers:
                self.stats["ptrs_checked"] += 1
                if ptr.type is not m:
                    V.append(("backlink-mismatch", f"model {ix} lists a pointer whose target is {getattr(ptr.type, 'index', None)}"))
                if ptr.parent is not None and now.get(ptr.parent.index) is not ptr.parent:
                    V.append(("pointer-parent-unregistered", f"a pointer to model {ix} has unregistered parent {ptr.parent.index}"))
