"""Workload generators (W-json, W-keys, W-opts). Pure functions of a random.Random instance; no repository imports."""
import re

BENIGN_KEYS = [
    "name", "title", "value", "count", "total", "price", "owner", "author", "tags", "items", "children", "parent",
    "meta", "info", "data", "status", "kind", "label", "code", "score", "rating", "address", "city", "street",
    "zip", "country", "email", "phone", "user", "users", "profile", "settings", "flags", "enabled", "active",
    "created", "updated", "start", "end", "width", "height", "size", "color", "shape", "weight", "level", "rank",
    "group", "groups", "member", "members", "note", "notes", "comment", "comments", "url", "link", "links",
    "image", "images", "file", "files", "path", "node", "nodes", "edge", "edges", "id", "type", "class",
    "userId", "first-name", "Last Name", "createdAt", "HTTPCode", "item2", "x", "y", "z", "lat", "lon", "geo",
    "payload", "result", "results", "entry", "entries", "record", "records", "detail", "details", "extra",
    "cafe\u0301", "nai\u0308ve", "r\u00e9sum\u00e9",
]
# keys that are used for object-valued positions (class names are derived from them)
OBJ_KEYS = [k for k in BENIGN_KEYS if k not in ("id", "type", "class", "x", "y", "z", "Last Name", "first-name")]

PLAIN_POOLS = [
    ["red", "green", "blue", "cyan", "magenta", "black", "white"],
    ["draft", "open", "closed", "merged", "stale"],
    ["north", "south", "east", "west"],
    ["alpha", "beta", "gamma", "delta", "epsilon", "zeta", "eta", "theta", "iota", "kappa", "lambda", "mu",
     "nu", "xi", "omicron", "pi", "rho", "sigma", "tau", "upsilon"],
    ["", "a", "bb", "ccc"],
    ["hello world", "foo bar", "lorem ipsum dolor", "q"],
    ["ok", "OK", "Ok", "kb", "kB", "Kb", "KB"],
]
HOSTILE_PLAIN = ['say "hi"', "it's", "back\\slash", "new\nline", "tab\there", "a,b", "a, b]", "ünï", "日本", "naïve café",
                 "q r", "semi;colon", "{brace}", "per%cent", "'''", '"""', "\\n", "\\", '"', "ключ", "😀 ok", "x😀",
                 # not in Unicode normal form C / compatibility characters; unpaired surrogates (valid JSON: "\\ud83d")
                 "Ame\u0301lie", "\u212b", "\u2126", "e\u0301" * 10, "\u1100\u1161", "\ud83d", "x\udc00y"]
LONG_PLAIN = ["eighteen chars long", "nineteen chars long!", "exactly twenty chars!", "twenty-one characters",
              "a" * 18, "b" * 19, "c" * 20, "d" * 21, "this is a much longer free text value"]
INT_STR = ["1", "0", "-7", "42", " 12 ", "1_000", "+5", "٣", "007", "123456789012345678901234567890"]
FLOAT_STR = ["2.5", "1e5", "nan", "inf", ".5", "-0.0", "1.", "-Infinity", "1E-3", " 3.25"]
BOOL_STR = ["true", "false", "True", "FALSE", "tRuE"]
# near-misses of the pseudo-type parsers (plain strings today): whitespace-padded booleans, words the date parsers might take
NEAR_MISS_STR = [" true", "false ", "\tTrue", "FALSE\n", "yes", "no", "on", "off", "0x10", "1,5", "1e", "--1", "½", "nan%", "truee", "t", "f",
                 "24:00:00", "2018-13-01", "12-31-1999", "10:30:60", "T10:30", "2018-01-02T", "1.2.3", "1__0", "_1", "1_", "∞", "+-1",
                 "3,14", "-0,5", "12:" + "4815162342" * 4, "1e400", "0b101", "1d", "1f", "0x1p3"]
DATE_STR = ["2018-01-02", "1999-12-31", "2020-02-29", "0001-01-01", "0999-12-31"]
TIME_STR = ["10:30:00", "23:59:59", "07:05", "12:00:00.123", "10:00 EST", "12:30 PST"]
DATETIME_STR = ["2018-01-02T10:30:00", "2018-01-02T10:30:00Z", "2018-01-02T10:30:00+03:00", "1999-12-31T23:59:59.999",
                "0999-12-31T23:59:59", "0001-01-01T00:00:00"]

SCALAR_KINDS = ["int", "float", "bool", "null", "plain", "hostile", "long", "many", "intstr", "floatstr", "boolstr",
                "date", "time", "datetime", "bigint", "intfloat", "boolnear", "nearmiss"]
CONTAINER_KINDS = ["list", "obj", "emptyobj", "emptylist", "nulllist", "mix", "listobj", "nested_list", "mapobj", "ragged"]


def fold(k: str) -> str:
    """case/punctuation folding used for the C11 domain filter (ascii-only approximation, refined in keys domain)"""
    return re.sub(r"[\W_]", "", k).lower()


class Schema:
    """A random schema: shapes (key -> node) and nodes; instantiate() draws sample objects from it."""

    def __init__(self, rng, profile="general", keys=None, obj_keys=None):
        self.rng = rng
        self.profile = profile
        self.keys = list(keys or BENIGN_KEYS)
        self.obj_keys = list(obj_keys or OBJ_KEYS)
        self.shapes = {}
        self.many_counter = 0
        p = profile
        self.max_depth = {"general": 3, "tree": 3, "merge": 3, "strings": 2, "literals": 1, "small": 2}.get(p, 3)
        self.p_missing = {"tree": 0.1}.get(p, 0.2)
        self.p_null = 0.12
        self.root = self.new_shape(0)

    # -- schema construction
    def pick_keys(self, n, for_obj=False, exclude=()):
        pool = self.obj_keys if for_obj else self.keys
        out = []
        tries = 0
        seen = {fold(k) for k in exclude}
        while len(out) < n and tries < 50:
            tries += 1
            k = self.rng.choice(pool)
            if fold(k) in seen:
                continue
            seen.add(fold(k))
            out.append(k)
        return out

    def new_shape(self, depth, n=None, base=None):
        sid = len(self.shapes)
        rng = self.rng
        self.shapes[sid] = fields = {}
        if base is not None:
            # a family member: shares most keys (and their nodes) with base
            bf = self.shapes[base]
            bkeys = list(bf)
            drop = rng.randint(0, max(0, len(bkeys) // 2))
            keep = [k for k in bkeys if k not in rng.sample(bkeys, drop)]
            for k in keep:
                node = bf[k]
                if rng.random() < 0.15:
                    node = self.new_node(depth + 1, scalar_only=True)
                fields[k] = node
            for k in self.pick_keys(rng.randint(0, 2), exclude=list(fields) + bkeys):
                fields[k] = self.new_node(depth + 1, scalar_only=True)
            if not fields:
                fields[bkeys[0]] = bf[bkeys[0]]
            return sid
        n = n or rng.randint(1, 5)
        n_obj = 0
        for k in self.pick_keys(n):
            node = self.new_node(depth + 1)
            if node[0] in ("obj", "listobj", "mapobj", "mix", "list", "nested_list") and k not in self.obj_keys:
                # class names derive from object valued keys: take such a key from the curated pool
                alt = self.pick_keys(1, for_obj=True, exclude=list(fields))
                if not alt:
                    continue
                k = alt[0]
                if fold(k) in {fold(x) for x in fields}:
                    continue
            fields[k] = node
            if node[0] in ("obj", "listobj") and rng.random() < 0.1:
                # self-named key ({"config": {"config": 1}}): the nested class and one of its own fields derive from one key
                child = self.shapes.get(node[1])
                if child is not None and child is not fields and fold(k) not in {fold(x) for x in child}:
                    child[k] = self.new_node(depth + 2, scalar_only=True)
        if not fields:
            fields[self.pick_keys(1)[0]] = ("int",)
        return sid

    def new_node(self, depth, scalar_only=False):
        rng = self.rng
        prof = self.profile
        if scalar_only or depth > self.max_depth or rng.random() < (0.55 if prof != "tree" else 0.45):
            if prof == "strings":
                kind = rng.choice(["intstr", "floatstr", "boolstr", "date", "time", "datetime", "plain", "int", "null", "boolnear", "nearmiss"])
            elif prof == "literals":
                kind = rng.choice(["plain", "plain", "hostile", "long", "many", "intstr", "null"])
            else:
                kind = rng.choice(SCALAR_KINDS)
            if kind == "plain":
                return ("plain", rng.randrange(len(PLAIN_POOLS)))
            if kind == "many":
                self.many_counter += 1
                return ("many", self.many_counter, rng.choice([3, 9, 10, 14, 15, 16, 17, 30]))
            return (kind,)
        kind = rng.choice(CONTAINER_KINDS if prof not in ("tree",) else ["obj", "listobj", "obj", "list"])
        if kind in ("obj", "listobj", "mapobj"):
            if prof == "tree":
                return (kind, self.new_shape(depth))
            r = rng.random()
            if self.shapes and r < (0.5 if prof == "merge" else 0.25):
                base = rng.randrange(len(self.shapes))
                if rng.random() < 0.5 or not self.shapes[base]:
                    # same shape at another position (shared model); an unfinished shape gives a recursive one
                    return (kind, base) if base != 0 or rng.random() < 0.3 else (kind, self.new_shape(depth))
                return (kind, self.new_shape(depth, base=base))
            return (kind, self.new_shape(depth))
        if kind == "list":
            return ("list", [self.new_node(depth + 1, scalar_only=rng.random() < 0.7) for _ in range(rng.randint(1, 2))])
        if kind == "nested_list":
            return ("list", [("list", [self.new_node(depth + 2, scalar_only=True)])])
        if kind == "mix":
            return ("mix", [self.new_node(depth + 1, scalar_only=rng.random() < 0.6) for _ in range(rng.randint(2, 3))])
        return (kind,)

    # -- instantiation
    def inst(self, node, depth=0):
        rng = self.rng
        k = node[0]
        if k == "int":
            return rng.choice([0, 1, -3, 17, 100000])
        if k == "bigint":
            return rng.choice([2 ** 63 + 5, -2 ** 70, 7])
        if k == "float":
            return rng.choice([0.5, -2.25, 1.0, 1e308, -0.0, 3.14])
        if k == "intfloat":
            return rng.choice([1, 2.5, 3, 0.0])
        if k == "bool":
            return rng.random() < 0.5
        if k == "null":
            return None
        if k == "plain":
            return rng.choice(PLAIN_POOLS[node[1]])
        if k == "hostile":
            return rng.choice(HOSTILE_PLAIN)
        if k == "long":
            return rng.choice(LONG_PLAIN)
        if k == "many":
            return f"v{node[1]}_{rng.randrange(node[2])}"
        if k == "intstr":
            return rng.choice(INT_STR)
        if k == "floatstr":
            return rng.choice(FLOAT_STR)
        if k == "boolstr":
            return rng.choice(BOOL_STR)
        if k == "boolnear":
            # boolean-like values only, some of them near-misses: a detector that accepts the near-miss types the field bool
            return rng.choice(BOOL_STR + NEAR_MISS_STR[:4])
        if k == "nearmiss":
            return rng.choice(NEAR_MISS_STR)
        if k == "date":
            return rng.choice(DATE_STR)
        if k == "time":
            return rng.choice(TIME_STR)
        if k == "datetime":
            return rng.choice(DATETIME_STR)
        if k == "ragged":
            # ragged nested lists: the same scalars with nulls placed at different nesting levels in sibling sub-lists
            # (structurally different unions that flat string encodings of a type may confuse)
            pool = rng.choice([[True, 1], [1, 2.5], ["a", 1], [True, "x"], [1, 2.5, "s"]])

            def sub(d):
                items = list(pool) if rng.random() < 0.7 else [rng.choice(pool)]
                if rng.random() < 0.5:
                    items.append(None)
                if d > 0 and rng.random() < 0.6:
                    items.append(sub(d - 1))
                if rng.random() < 0.3:
                    items.append(rng.choice([2.5, "t", False]))
                rng.shuffle(items)
                return items
            if rng.random() < 0.6:
                # a pair that differs only in the nesting level at which one element sits: [[a, b], X, c] vs [[a, b, X], c]
                x = rng.choice([None, None, rng.choice(pool), "t", 2.5])
                c = rng.choice([2.5, "u", False, 7])
                inner = list(pool)
                pair = [[list(inner), x, c], [list(inner) + [x], c]]
                if rng.random() < 0.5:
                    pair.reverse()
                extra = [sub(1)] if rng.random() < 0.3 else []
                return pair + extra
            return [sub(rng.randint(1, 2)) for _ in range(rng.randint(1, 3))]
        if k == "emptyobj":
            return {}
        if k == "emptylist":
            return []
        if k == "nulllist":
            return [None] * rng.randint(1, 2)
        if k == "list":
            return [self.inst(rng.choice(node[1]), depth + 1) for _ in range(rng.choice([0, 1, 1, 2, 3]))]
        if k == "mix":
            return self.inst(rng.choice(node[1]), depth + 1)
        if k == "obj":
            return self.inst_shape(node[1], depth + 1)
        if k == "listobj":
            return [self.inst_shape(node[1], depth + 1) for _ in range(rng.choice([0, 1, 2, 2, 3]))]
        if k == "mapobj":
            # object whose keys look like ids (target of dict-keys-regex options)
            return {f"k{rng.randrange(40)}": self.inst_shape(node[1], depth + 1) if rng.random() < 0.5 else rng.choice([1, "s", None])
                    for _ in range(rng.choice([0, 1, 2, 3]))}
        raise ValueError(node)

    def inst_shape(self, sid, depth=0):
        rng = self.rng
        self.budget -= 1
        if depth > self.max_depth + 3 or self.budget < 0:
            return {}
        out = {}
        for key, node in self.shapes[sid].items():
            if rng.random() < self.p_missing:
                continue
            if rng.random() < self.p_null:
                out[key] = None
                continue
            out[key] = self.inst(node, depth)
        return out

    def samples(self, n=None):
        n = n or self.rng.choice([1, 2, 2, 3, 3, 4, 5, 6])
        self.budget = 60  # objects per sample list (keeps the quadratic merge closure of the library fast)
        out = []
        for _ in range(n):
            s = self.inst_shape(self.root, 0)
            out.append(s)
        if not any(out):
            # every sample empty: keep at least one key so the root is a model with a field
            k = next(iter(self.shapes[self.root]))
            out[0][k] = self.inst(self.shapes[self.root][k])
        return out


def json_case(rng, profile=None):
    profile = profile or rng.choice(["general", "general", "merge", "merge", "tree", "strings", "literals", "small"])
    sch = Schema(rng, profile)
    return {"profile": profile, "samples": sch.samples()}


# ----------------------------------------------------------------------------------------------------------
# options

FRAMEWORKS = ["base", "pydantic", "sqlmodel", "attrs", "dataclasses"]
STR_TYPES = ["IntString", "FloatString", "BooleanString", "IsoDateString", "IsoTimeString", "IsoDatetimeString"]


def merge_policy(rng):
    r = rng.random()
    if r < 0.25:
        return [["percent", 0.7], ["number", 10]]
    if r < 0.4:
        return [["exact"]]
    if r < 0.7:
        return [["percent", rng.choice([0.01, 0.3, 0.5, 0.7, 0.99, 1.0])]]
    if r < 0.85:
        return [["number", rng.choice([1, 2, 3, 10])]]
    return [["percent", rng.choice([0.3, 0.5, 0.7])], ["number", rng.choice([1, 2, 3])]]


def str_registry(rng):
    r = rng.random()
    if r < 0.35:
        return STR_TYPES[:3]
    if r < 0.7:
        return list(STR_TYPES)
    # a random ordered subset that keeps the IntString->FloatString replacement meaningful
    k = rng.randint(0, 6)
    sub = rng.sample(STR_TYPES, k)
    if rng.random() < 0.6:
        sub.sort(key=STR_TYPES.index)
    return sub


def collect_keys(samples):
    keys = []

    def rec(v):
        if isinstance(v, dict):
            for k, x in v.items():
                keys.append(k)
                rec(x)
        elif isinstance(v, list):
            for x in v:
                rec(x)
    for s in samples:
        rec(s)
    return keys


REGEX_POOL = [r"k\d+", r"k\d", r"[a-z]+", r"k1\d*|k2\d*", r"\w+", r"[a-m]\w*", r"k\d+|name|value", r"(?:k)(?:\d+)", r"K\d+",
              r"[a-z]{1,4}"]


def options(rng, samples=None, frameworks=None, allow_dict_opts=True):
    fw = rng.choice(frameworks or FRAMEWORKS)
    o = {
        "framework": fw,
        "flat": rng.random() < 0.5,
        "merge": merge_policy(rng),
        "max_literals": rng.choice([0, 1, 2, 5, 10, 10, 16, 16, 17]),
        "convert_unicode": rng.random() < 0.7,
        "registry": str_registry(rng),
        "dkf": [],
        "dkr": [],
        "post_init_converters": False,
        "meta": False,
    }
    if fw in ("attrs", "dataclasses"):
        o["post_init_converters"] = rng.random() < 0.4
        o["meta"] = rng.random() < 0.5
    if allow_dict_opts and samples is not None and rng.random() < 0.35:
        keys = sorted(set(collect_keys(samples)))
        if keys and rng.random() < 0.6:
            o["dkf"] = rng.sample(keys, min(len(keys), rng.randint(1, 2)))
            if rng.random() < 0.2:
                o["dkf"].append("no_such_key")
        if rng.random() < 0.6:
            o["dkr"] = [rng.choice(REGEX_POOL) for _ in range(rng.randint(1, 2))]
    return o


# ----------------------------------------------------------------------------------------------------------
# W-keys

KEY_STYLES = {
    "snake": ["user_id", "first_name", "created_at", "foo_bar_baz", "snake_case_key", "a_b"],
    "camel": ["userId", "firstName", "createdAt", "fooBarBaz", "camelCaseKeyName", "aB"],
    "kebab": ["user-id", "first-name", "x-y-z", "kebab-case-key", "content-type"],
    "pascal": ["UserId", "FirstName", "PascalCaseKey", "FooBar"],
    "digits": ["item2", "item_2x", "a1b2", "y2k", "x1", "v10alpha"],
    "caps": ["ID", "URL", "UPPER_CASE", "HTTPResponse", "XMLHttpRequest", "userID"],
    "keywords": ["class", "def", "None", "import", "match", "case", "from", "lambda", "True", "async", "await", "is", "in",
                 "not", "or", "pass", "global", "type", "yield", "with", "as", "if", "else", "try", "for", "while", "return"],
    "builtins": ["list", "dict", "id", "print", "object", "str", "int", "float", "bool", "set", "len", "max", "min", "sum",
                 "filter", "map", "input", "open", "hash", "format", "property", "super", "vars", "all", "any", "next", "iter",
                 "bytes", "range", "slice", "tuple", "zip", "abs"],
    "typing": ["List", "Optional", "Union", "Dict", "Any", "Literal", "Field", "field", "BaseModel", "SQLModel", "attr",
               "dataclass", "optional", "ClassType", "convert_strings", "IntString", "FloatString", "BooleanString",
               "IsoDateString", "datetime", "date", "time", "dataclasses", "typing", "pydantic", "sqlmodel"],
    "reserved": ["copy", "json", "fields", "schema", "validate", "construct", "self", "cls", "Config", "parse_obj", "dict_",
                 "update_forward_refs", "from_orm", "parse_raw", "schema_json",
                 # spellings that become a reserved name only after conversion
                 "Json", "JSON", "Copy", "parseObj", "schemaJson", "json!", "jsön", "Validate", "fromOrm"],
    "long": ["survey_question_about_the_overall_satisfaction_with_the_product_quality_and_price_part_one",
             "survey_question_about_the_overall_satisfaction_with_the_product_quality_and_price_part_two",
             "a_rather_long_dotted.path.to.some.deeply.nested.configuration.value.number.one",
             "a_rather_long_dotted.path.to.some.deeply.nested.configuration.value.number.two", "x" * 80, "x" * 79 + "y"],
    "punct": ['a"b', "a'b", "a\\b", "a b", "a.b", "$ref", "@type", "#text", "a/b", "a:b", "a+b", "a[0]", "a{b}", "a\tb", "a\nb",
              'x"""y', "x'''y", "a\\", "a\\\\b", "a%sb", "a{{b}}", "a{%b%}",
              "first\u2028second", "para\u2029graph", "next\u0085line", "form\x0cfeed", "vt\x0bab", "fs\x1csep", "cr\rlf"],
    "nonascii": ["données", "Ünï", "ключ", "Ключ", "λέξη", "straße", "naïve", "Բառ", "ßeta", "émigré", "ñandú", "ÇA", "œuvre",
                 "ключ_поля", "dataЖ", "Жdata", "x名前", "café_au_lait",
                 "cafe\u0301", "prix-cafe\u0301", "A\u030angstrom", "\u212aelvin", "\u2126hm", "nai\u0308ve", "e\u0301te\u0301",
                 # supplementary-plane characters that are not printable: tag characters, plane-15 private use, format controls
                 "tag\U000e0067x", "pua\U000f0000", "fmt\U0001d173z", "flag\U0001f3f4\U000e0067\U000e007f", "emoji😀key",
                 # unpaired surrogates (valid JSON: "half\\ud83d")
                 "half\ud83d", "x\udc00y"],
    "plural": ["items", "item", "children", "child", "data", "datum", "status", "statuses", "address", "addresses", "series",
               "news", "person", "people", "men", "man", "indices", "index", "boxes", "box"],
}


def key_domain_ok(k: str, leading=True) -> bool:
    if not k:
        return False
    if leading and (k[0].isdigit() or k[0] == "_"):
        return False
    return True


def ufold(k: str) -> str:
    """case/punctuation folding after transliteration (the C11 'pairwise distinct after folding' domain filter)"""
    try:
        from unidecode import unidecode
        k2 = unidecode(k)
    except Exception:
        k2 = k
    return re.sub(r"[\W_]", "", k2).lower()


def has_ascii_letter_after_translit(k: str) -> bool:
    try:
        from unidecode import unidecode
        k2 = unidecode(k)
    except Exception:
        k2 = k
    return bool(re.search(r"[A-Za-z]", k2))


def pick_style_keys(rng, n, styles=None, exclude=(), leading_ok=False):
    """n keys from KEY_STYLES, pairwise distinct after folding (also w.r.t. exclude)"""
    styles = styles or list(KEY_STYLES)
    seen = {ufold(k) for k in exclude}
    out = []
    tries = 0
    while len(out) < n and tries < 60:
        tries += 1
        k = rng.choice(KEY_STYLES[rng.choice(styles)])
        f = ufold(k)
        if not f or f in seen or not key_domain_ok(k, leading=not leading_ok):
            continue
        seen.add(f)
        out.append(k)
    return out


def keys_case(rng, styles=None, depth=2):
    """sample list whose keys come from the key-style pools, as scalar-, object- and list-of-object-valued keys"""
    used = []

    def obj(d):
        ks = pick_style_keys(rng, rng.randint(1, 4), styles, exclude=())
        o = {}
        for k in ks:
            r = rng.random()
            if d > 0 and r < 0.35:
                o[k] = obj(d - 1)
                if rng.random() < 0.15:
                    o[k].setdefault(k, rng.choice([1, "s", [], None]))  # self-named key: class and one of its fields from one key
            elif d > 0 and r < 0.5:
                o[k] = [obj(d - 1) for _ in range(rng.randint(1, 2))]
                if rng.random() < 0.15:
                    for c in o[k]:
                        c.setdefault(k, rng.choice([1, "s", [], None]))
            elif r < 0.6:
                o[k] = rng.choice([["a", "b"], [1, 2], []])
            else:
                o[k] = rng.choice([1, 2.5, True, "s", "red", "1", "true", None, "2018-01-02"])
        used.extend(ks)
        return o

    first = obj(depth)
    samples = [first]
    for _ in range(rng.choice([0, 1, 1, 2])):
        # variants of the first sample: drop keys / null values (same key spelling, so no folded-equal pairs appear)
        s = {k: (None if rng.random() < 0.15 else v) for k, v in first.items() if rng.random() < 0.8}
        if s:
            samples.append(s)
    return {"profile": "keys", "samples": samples}
