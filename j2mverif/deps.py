"""Third-party monitor libraries (icontract) are installed offline from the local wheelhouse into /verif/.deps
(git-ignored, so absent after a fresh restore): setup_cmd does it, and every check re-does it lazily."""
import os
import subprocess
import sys

from .common import DEPS, PY

WHEELS = "/opt/veriftools/wheels"


def ensure(pkgs=("icontract",)):
    missing = [p for p in pkgs if not os.path.isdir(os.path.join(DEPS, p))]
    if not missing:
        return True
    os.makedirs(DEPS, exist_ok=True)
    r = subprocess.run([PY, "-m", "pip", "install", "--quiet", "--no-index", "--find-links", WHEELS, "--target", DEPS,
                        "--upgrade", *missing], capture_output=True, text=True)
    if r.returncode != 0:
        sys.stderr.write("j2mverif: could not install %s offline: %s\n" % (missing, r.stderr[-500:]))
        return False
    return True


if __name__ == "__main__":
    sys.exit(0 if ensure() else 1)
