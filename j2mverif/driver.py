"""Drives the real library pipeline exactly in the order cli.py does, with explicit registries and options."""
import re

from json_to_models.dynamic_typing import (
    BooleanString, FloatString, IntString, IsoDateString, IsoDatetimeString, IsoTimeString,
    StringSerializableRegistry,
)
from json_to_models.generator import MetadataGenerator
from json_to_models.models.attr import AttrsModelCodeGenerator
from json_to_models.models.base import GenericModelCodeGenerator, generate_code
from json_to_models.models.dataclasses import DataclassModelCodeGenerator
from json_to_models.models.pydantic import PydanticModelCodeGenerator
from json_to_models.models.sqlmodel import SqlModelCodeGenerator
from json_to_models.models.structure import compose_models, compose_models_flat
from json_to_models.registry import ModelFieldsEquals, ModelFieldsNumberMatch, ModelFieldsPercentMatch, ModelRegistry

FW = {
    "base": GenericModelCodeGenerator,
    "pydantic": PydanticModelCodeGenerator,
    "sqlmodel": SqlModelCodeGenerator,
    "attrs": AttrsModelCodeGenerator,
    "dataclasses": DataclassModelCodeGenerator,
}
STR_CLASSES = {c.__name__: c for c in (IntString, FloatString, BooleanString, IsoDateString, IsoTimeString, IsoDatetimeString)}


def make_str_registry(names):
    """Explicit pseudo-type registry with the given classes in the given order (IntString is replaced by
    FloatString exactly as in the shipped default registry when both are present)."""
    r = StringSerializableRegistry()
    for n in names:
        cls = STR_CLASSES[n]
        if cls is FloatString:
            r.add(replace_types=(IntString,), cls=cls)
        else:
            r.add(cls=cls)
    return r


def make_cmps(policy):
    out = []
    for p in policy:
        if p[0] == "percent":
            out.append(ModelFieldsPercentMatch(*p[1:]))
        elif p[0] == "number":
            out.append(ModelFieldsNumberMatch(*p[1:]))
        elif p[0] == "exact":
            out.append(ModelFieldsEquals())
        else:
            raise ValueError(p)
    return out


def lib_regex(patterns):
    """library-level patterns: anchored and grouped so 'matches' is unambiguous (full match)"""
    return [re.compile(rf"^(?:{p})$") for p in patterns]


def generator_kwargs(opts):
    fw = opts["framework"]
    kw = dict(max_literals=opts.get("max_literals", 10), convert_unicode=opts.get("convert_unicode", True))
    if fw in ("attrs", "dataclasses"):
        kw["post_init_converters"] = bool(opts.get("post_init_converters"))
        kw["meta"] = bool(opts.get("meta"))
    elif fw == "base":
        kw["post_init_converters"] = bool(opts.get("post_init_converters"))
    return kw


class Run:
    pass


def infer(models, opts, pre_merge_hook=None):
    """models: list of (name, samples). Returns Run with generator, registry (after merge + names)."""
    run = Run()
    run.str_registry = make_str_registry(opts.get("registry", ["IntString", "FloatString", "BooleanString"]))
    run.generator = MetadataGenerator(
        str_types_registry=run.str_registry,
        dict_keys_regex=lib_regex(opts.get("dkr") or []) or None,
        dict_keys_fields=list(opts.get("dkf") or []) or None,
    )
    run.registry = ModelRegistry(*make_cmps(opts.get("merge") or []))
    run.root_ptrs = []
    for name, samples in models:
        meta = run.generator.generate(*samples)
        run.root_ptrs.append(run.registry.process_meta_data(meta, model_name=name))
    if pre_merge_hook:
        pre_merge_hook(run)
    run.replaces = run.registry.merge_models(run.generator)
    run.registry.generate_names()
    run.raw_names = {ix: m.name for ix, m in run.registry.models_map.items()}
    return run


def render(run, opts, flat=None, framework=None, preamble=None):
    flat = opts.get("flat", True) if flat is None else flat
    o = dict(opts)
    if framework:
        o["framework"] = framework
    structure = (compose_models_flat if flat else compose_models)(run.registry.models_map)
    return generate_code(structure, FW[o["framework"]], class_generator_kwargs=generator_kwargs(o), preamble=preamble)


def pipeline(models, opts):
    run = infer(models, opts)
    run.code = render(run, opts)
    return run


def is_tree(registry):
    """C03/C12 precondition: every non-root model is referenced from exactly one class (and roots from none)."""
    ok = True
    for m in registry.models:
        parents = {p.parent.index for p in m.pointers if p.parent is not None}
        has_root_ptr = any(p.parent is None for p in m.pointers)
        if has_root_ptr:
            if parents:
                ok = False
        elif len(parents) != 1:
            ok = False
        # self reference is a cycle, not a tree
        if m.index in parents:
            ok = False
    return ok
