"""Drives the real library pipeline exactly in the order cli.py does, with explicit registries and options."""
import re

from json_to_models.dynamic_typing import (
    BooleanString, FloatString, IntString, IsoDateString, IsoDatetimeString, IsoTimeString,
    StringSerializableRegistry,
)
from json_to_models.generator import MetadataGenerator
from json_to_models.models.attr import AttrsModelCodeGenerator
from json_to_models.models.base import GenericModelCodeGenerator, generate_code
from json_to_models.models.dataclasses import DataclassModelCodeGenerator
from json_to_models.models.pydantic import PydanticModelCodeGenerator
from json_to_models.models.sqlmodel import SqlModelCodeGenerator
from json_to_models.models.structure import compose_models, compose_models_flat
from json_to_models.registry import ModelFieldsEquals, ModelFieldsNumberMatch, ModelFieldsPercentMatch, ModelRegistry

FW = {
    "base": GenericModelCodeGenerator,
    "pydantic": PydanticModelCodeGenerator,
    "sqlmodel": SqlModelCodeGenerator,
    "attrs": AttrsModelCodeGenerator,
    "dataclasses": DataclassModelCodeGenerator,
}
STR_CLASSES = {c.__name__: c for c in (IntString, FloatString, BooleanString, IsoDateString, IsoTimeString, IsoDatetimeString)}


def _shipped():
    """the shipped registries as the library builds them: the default registry (types + replacement edges, snapshot taken at
    import) and what register_datetime_classes() adds to a registry"""
    global _SHIPPED
    try:
        return _SHIPPED
    except NameError:
        pass
    from json_to_models.dynamic_typing import register_datetime_classes, registry as default_registry
    base_types = list(default_registry.types)[:3] if len(default_registry.types) >= 3 else list(default_registry.types)
    base_edges = {(a, b) for a, b in default_registry.replaces if a in base_types and b in base_types}
    scratch = StringSerializableRegistry()
    register_datetime_classes(scratch)
    _SHIPPED = (base_types, base_edges, list(scratch.types), set(scratch.replaces), register_datetime_classes)
    return _SHIPPED


def make_str_registry(names):
    """Explicit pseudo-type registry with the given classes in the given order.  The full shipped configuration (the three
    default types followed by the datetime types) is built exactly the way a user builds it - a copy of the default types and
    edges plus register_datetime_classes(registry); other orders / subsets are built with add() and receive the replacement
    edges the shipped configuration declares between the classes that are present."""
    base_types, base_edges, dt_types, dt_edges, register_dt = _shipped()
    names = list(names)
    r = StringSerializableRegistry()
    shipped_default = [c.__name__ for c in base_types]
    shipped_dt = [c.__name__ for c in dt_types]
    if names[:len(shipped_default)] == shipped_default and names[len(shipped_default):] in ([], shipped_dt):
        r.types = list(base_types)
        r.replaces = set(base_edges)
        if names[len(shipped_default):]:
            register_dt(r)
        return r
    present = [STR_CLASSES[n] for n in names]
    for cls in present:
        r.add(cls=cls)
    for a, b in set(base_edges) | set(dt_edges):
        if a in present and b in present:
            r.replaces.add((a, b))
    return r


def make_cmps(policy):
    out = []
    for p in policy:
        if p[0] == "percent":
            out.append(ModelFieldsPercentMatch(*p[1:]))
        elif p[0] == "number":
            out.append(ModelFieldsNumberMatch(*p[1:]))
        elif p[0] == "exact":
            out.append(ModelFieldsEquals())
        else:
            raise ValueError(p)
    return out


RE_FLAGS = {"i": re.IGNORECASE, "x": re.VERBOSE, "s": re.DOTALL, "a": re.ASCII}


def re_flags(letters):
    f = 0
    for ch in letters or "":
        f |= RE_FLAGS[ch]
    return f


def lib_regex(patterns, flags=""):
    """library-level patterns: anchored and grouped so 'matches' is unambiguous (full match); the library accepts compiled patterns,
    which carry their own flags (re.I, re.X, ...)"""
    if "x" in (flags or ""):
        # verbose spelling: layout white space and a comment that mean nothing under re.X and everything without it
        return [re.compile(rf"^(?: {p} )$  # dict keys", re_flags(flags)) for p in patterns]
    return [re.compile(rf"^(?:{p})$", re_flags(flags)) for p in patterns]


def generator_kwargs(opts):
    fw = opts["framework"]
    kw = dict(max_literals=opts.get("max_literals", 10), convert_unicode=opts.get("convert_unicode", True))
    if fw in ("attrs", "dataclasses"):
        kw["post_init_converters"] = bool(opts.get("post_init_converters"))
        kw["meta"] = bool(opts.get("meta"))
        if opts.get("decorator_kwargs"):
            # library-only option: keyword arguments of the @attr.s / @dataclass decorator (slots=True, ...)
            kw["attrs_kwargs" if fw == "attrs" else "dataclass_kwargs"] = dict(opts["decorator_kwargs"])
    elif fw == "base":
        kw["post_init_converters"] = bool(opts.get("post_init_converters"))
    return kw


class Run:
    pass


def infer(models, opts, pre_merge_hook=None, shared=None):
    """models: list of (name, samples). Returns Run with generator, registry (after merge + names).
    shared: a Run of an earlier call with the same pseudo-type / dict-keys options whose MetadataGenerator (and pseudo-type
    registry) is used again, as a program that keeps one generator object for many documents does"""
    run = Run()
    if shared is not None:
        run.str_registry, run.generator = shared.str_registry, shared.generator
    else:
        run.str_registry = make_str_registry(opts.get("registry", ["IntString", "FloatString", "BooleanString"]))
        run.generator = MetadataGenerator(
            str_types_registry=run.str_registry,
            dict_keys_regex=lib_regex(opts.get("dkr") or [], opts.get("dkr_flags")) or None,
            dict_keys_fields=list(opts.get("dkf") or []) or None,
        )
    run.registry = ModelRegistry(*make_cmps(opts.get("merge") or []))
    run.root_ptrs = []
    for name, samples in models:
        meta = run.generator.generate(*samples)
        run.root_ptrs.append(run.registry.process_meta_data(meta, model_name=name))
    if pre_merge_hook:
        pre_merge_hook(run)
    run.replaces = run.registry.merge_models(run.generator)
    run.registry.generate_names()
    run.raw_names = {ix: m.name for ix, m in run.registry.models_map.items()}
    return run


def render(run, opts, flat=None, framework=None, preamble=None):
    flat = opts.get("flat", True) if flat is None else flat
    o = dict(opts)
    if framework:
        o["framework"] = framework
    structure = (compose_models_flat if flat else compose_models)(run.registry.models_map)
    return generate_code(structure, FW[o["framework"]], class_generator_kwargs=generator_kwargs(o), preamble=preamble)


def pipeline(models, opts):
    run = infer(models, opts)
    run.code = render(run, opts)
    return run


def is_tree(registry):
    """C03/C12 precondition: every non-root model is referenced from exactly one class (and roots from none)."""
    ok = True
    for m in registry.models:
        parents = {p.parent.index for p in m.pointers if p.parent is not None}
        has_root_ptr = any(p.parent is None for p in m.pointers)
        if has_root_ptr:
            if parents:
                ok = False
        elif len(parents) != 1:
            ok = False
        # self reference is a cycle, not a tree
        if m.index in parents:
            ok = False
    return ok
