#!/bin/sh
# usage: tools_sweep.sh <tier> "<seeds>" [checks...]   - runs checks on the unchanged tree, evidence/replays redirected to a scratch dir
TIER="$1"; SEEDS="$2"; shift 2
CHECKS="${*:-C01 C02 C03 C04 C05 C06 C07 C08 C09 C10 C11 C12 C13 C14 C15 C16 C17 C18 C19}"
DIR="$(cd "$(dirname "$0")" && pwd)"
OUT="$(mktemp -d /tmp/j2m_sweep_XXXXXX)"
export J2M_VERIF_EVIDENCE_DIR="$OUT/evidence" J2M_VERIF_REPLAY_DIR="$DIR/replays"
for s in $SEEDS; do
  for c in $CHECKS; do
    start=$(date +%s)
    VERIF_SEED=$s VERIF_TIER=$TIER "$DIR/bin/check" $c > "$OUT/$c.$s.log" 2>&1
    rc=$?
    echo "seed=$s $c exit=$rc $(( $(date +%s) - start ))s $(grep -c '^KNOWN-FINDING' "$OUT/$c.$s.log") known $(grep -E '^(VIOLATION|INCONCLUSIVE|  mechanism)' "$OUT/$c.$s.log" | cut -c1-220 | tr '\n' ' ')"
  done
done
rm -rf "$OUT"
