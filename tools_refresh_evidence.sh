#!/bin/sh
# usage: tools_refresh_evidence.sh <tier> [seed]  - runs every check in /verif against /repo and rewrites evidence/<ID>.json
TIER="${1:-quick}"; SEED="${2:-0}"
DIR="$(cd "$(dirname "$0")" && pwd)"
cd "$DIR"
for c in C01 C02 C03 C04 C05 C06 C07 C08 C09 C10 C11 C12 C13 C14 C15 C16 C17 C18 C19; do
  start=$(date +%s)
  VERIF_SEED=$SEED VERIF_TIER=$TIER bin/check $c > /tmp/refresh_$c.log 2>&1
  echo "$c exit=$? $(( $(date +%s) - start ))s $(grep -c '^KNOWN-FINDING' /tmp/refresh_$c.log) known $(grep -E '^(VIOLATION|INCONCLUSIVE)' /tmp/refresh_$c.log | cut -c1-160)"
done
