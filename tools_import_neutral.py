#!/usr/bin/env python3
"""copies a sub-agent's behaviour-preserving changes (<base>/<area>/OUT/change<k>/) to /verif/neutral/<area>-<k>/
usage: tools_import_neutral.py <base dir, e.g. /tmp/neutral2> area..."""
import json, os, shutil, sys
HERE = os.path.dirname(os.path.abspath(__file__))
BASE = sys.argv[1]
for area in sys.argv[2:]:
    for k in (1, 2, 3):
        src = f"{BASE}/{area}/OUT/change{k}"
        if not os.path.isdir(src):
            continue
        dst = os.path.join(HERE, "neutral", f"{area}-{k}")
        os.makedirs(dst, exist_ok=True)
        for f in ("patch.diff", "notes.md"):
            if os.path.exists(os.path.join(src, f)):
                shutil.copy(os.path.join(src, f), os.path.join(dst, f))
        mp = os.path.join(dst, "meta.json")
        if not os.path.exists(mp):
            json.dump({"property": "all", "kind": "behaviour-preserving change (must raise no alarm)",
                       "source": "independent sub-agent given the 19 property statements and a scratch worktree", "also_run": []}, open(mp, "w"), indent=1)
        print("imported", dst)
