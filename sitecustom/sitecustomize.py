"""Monitor loaded into CLI subprocesses through PYTHONPATH (inert unless J2M_VERIF_LOG is set).
Records write-opens of the -o target (audit hook), counts function starts inside json_to_models (sys.monitoring) before
and after the first write-open, and honours the source-free failpoint J2M_VERIF_FAIL_AT=<k>."""
import os
import sys

_log = os.environ.get("J2M_VERIF_LOG")
if _log and os.environ.get("J2M_VERIF") == "1":
    import json

    _f = open(_log, "a")
    _state = {"n": 0, "opened": False, "after": 0}
    _target = os.environ.get("J2M_VERIF_OUT")
    _marker = os.sep + "json_to_models" + os.sep

    def _emit(rec):
        _f.write(json.dumps(rec) + "\n")
        _f.flush()

    def _hook(ev, args):
        if ev == "open" and _target and args and isinstance(args[0], (str, bytes, os.PathLike)):
            try:
                path = os.fspath(args[0])
                if isinstance(path, bytes):
                    path = path.decode("utf-8", "replace")
            except Exception:
                return
            mode, flags = args[1], args[2] if len(args) > 2 else 0
            writing = (isinstance(mode, str) and any(c in mode for c in "wax+")) or \
                      (isinstance(flags, int) and flags & (os.O_WRONLY | os.O_RDWR | os.O_TRUNC | os.O_CREAT))
            if writing and os.path.basename(path) == os.path.basename(_target):
                _state["opened"] = True
                _emit({"ev": "open_w", "path": path, "py_starts_before": _state["n"]})
        elif ev in ("os.rename", "os.remove", "os.truncate", "shutil.move", "os.replace") and _target:
            try:
                names = [os.path.basename(os.fspath(a)) for a in args if isinstance(a, (str, bytes, os.PathLike))]
            except Exception:
                names = []
            if any(n == os.path.basename(_target) or n == os.path.basename(_target).encode() for n in names):
                _state["opened"] = True
                _emit({"ev": ev, "py_starts_before": _state["n"]})

    sys.addaudithook(_hook)
    _mon = sys.monitoring
    _TID = _mon.PROFILER_ID
    _mon.use_tool_id(_TID, "j2mverif")
    _fail_at = int(os.environ.get("J2M_VERIF_FAIL_AT", "0"))

    class InjectedFault(RuntimeError):
        pass

    def _py_start(code, off):
        fn = code.co_filename
        if _marker not in fn:
            return _mon.DISABLE
        if fn.endswith("cli.py") or fn.endswith("__main__.py"):
            return _mon.DISABLE
        _state["n"] += 1
        if _state["opened"]:
            _state["after"] += 1
        if _fail_at and _state["n"] == _fail_at:
            _emit({"ev": "failpoint", "at": _state["n"], "where": code.co_qualname})
            raise InjectedFault(f"failpoint #{_state['n']} at {code.co_qualname}")

    _mon.register_callback(_TID, _mon.events.PY_START, _py_start)
    _mon.set_events(_TID, _mon.events.PY_START)
    import atexit

    atexit.register(lambda: _emit({"ev": "exit", "py_starts": _state["n"], "after_open": _state["after"]}))
