#!/usr/bin/env python3
"""writes into every seeded/*/meta.json and neutral/*/meta.json what was run to confirm it (from result.json)"""
import glob, json, os
HERE = os.path.dirname(os.path.abspath(__file__))
for d in sorted(glob.glob(os.path.join(HERE, "seeded", "*")) + glob.glob(os.path.join(HERE, "neutral", "*"))):
    mp, rp = os.path.join(d, "meta.json"), os.path.join(d, "result.json")
    if not (os.path.exists(mp) and os.path.exists(rp)):
        continue
    m, r = json.load(open(mp)), json.load(open(rp))
    kind = os.path.basename(os.path.dirname(d))
    m["what_was_run"] = {
        "command": f"python3 tools_seeded.py {'--dir neutral ' if kind == 'neutral' else ''}--all-checks {os.path.basename(d)}  (scratch copies of /repo HEAD {r.get('repo_head')}, removed afterwards)",
        "patch_applies": r.get("patch_applies"),
        "repository_test_suite_with_patch": r.get("tests_tail"),
        "demo_exit_unpatched": r.get("demo_unpatched_exit"),
        "demo_exit_patched": r.get("demo_patched_exit"),
        "quick_checks_reporting_a_violation": r.get("caught_by"),
        "at": r.get("at"),
    }
    json.dump(m, open(mp, "w"), indent=1, ensure_ascii=False)
print("meta updated")
