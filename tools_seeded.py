#!/usr/bin/env python3
"""Evaluate seeded breaking changes (/verif/seeded/<id>/patch.diff + demo) against the checks.

For each seed: a scratch copy of /repo's HEAD is made outside /repo and /verif, the patch is applied there, and
  1. the repository's own test suite is run on the patched copy (must still pass),
  2. the demonstration is run on an unpatched copy (must pass) and on the patched copy (must fail),
  3. the quick checks are run with J2M_VERIF_REPO=<patched copy> (evidence/replays redirected to the scratch dir);
the results are written to seeded/<id>/result.json.  The scratch copy is removed afterwards.

usage: tools_seeded.py [--checks C01,C07 | --all-checks] [--skip-tests] [--tier quick] seed_id [seed_id ...]"""
import json
import os
import shutil
import subprocess
import sys
import tempfile
import time

HERE = os.path.dirname(os.path.abspath(__file__))
PY = "/venv/bin/python"
ALL = [f"C{i:02d}" for i in range(1, 20)]


def sh(cmd, **kw):
    return subprocess.run(cmd, capture_output=True, text=True, **kw)


def make_copy(dst):
    os.makedirs(dst)
    p1 = subprocess.Popen(["git", "-C", "/repo", "archive", "HEAD"], stdout=subprocess.PIPE)
    subprocess.run(["tar", "-x", "-C", dst], stdin=p1.stdout, check=True)
    p1.wait()
    subprocess.run(["git", "init", "-q"], cwd=dst)


SEED_DIR = "seeded"
MERGE = False


def evaluate(seed, checks, skip_tests, tier):
    sdir = os.path.join(HERE, SEED_DIR, seed)
    meta_path = os.path.join(sdir, "meta.json")
    meta = json.load(open(meta_path)) if os.path.exists(meta_path) else {}
    tmp = tempfile.mkdtemp(prefix="j2m_seed_")
    res = {"seed": seed, "at": time.strftime("%Y-%m-%d %H:%M:%S"), "repo_head": sh(["git", "-C", "/repo", "rev-parse", "--short", "HEAD"]).stdout.strip()}
    try:
        clean = os.path.join(tmp, "clean")
        patched = os.path.join(tmp, "patched")
        make_copy(clean)
        make_copy(patched)
        r = sh(["git", "apply", os.path.join(sdir, "patch.diff")], cwd=patched)
        res["patch_applies"] = r.returncode == 0
        if r.returncode:
            res["apply_error"] = r.stderr[-500:]
            return res
        demo = next((f for f in ("demo.py", "test_demo.py") if os.path.exists(os.path.join(sdir, f))), None)
        if demo:
            def run_demo(root):
                env = dict(os.environ, PYTHONPATH=root, PYTHONDONTWRITEBYTECODE="1")
                cmd = [PY, os.path.join(sdir, demo)] if demo == "demo.py" else [PY, "-m", "pytest", "-q", "-p", "no:cacheprovider", os.path.join(sdir, demo)]
                return sh(cmd, env=env, cwd=tmp, timeout=600)
            a = run_demo(clean)
            b = run_demo(patched)
            res["demo_unpatched_exit"] = a.returncode
            res["demo_patched_exit"] = b.returncode
            res["demo_patched_tail"] = (b.stdout + b.stderr)[-400:]
        if skip_tests:
            # keep the suite result of an earlier evaluation of the same patch
            prev = os.path.join(sdir, "result.json")
            if os.path.exists(prev):
                try:
                    pr = json.load(open(prev))
                    for k in ("tests_exit", "tests_tail"):
                        if k in pr:
                            res[k] = pr[k]
                except Exception:
                    pass
        if not skip_tests:
            t = sh([PY, "-m", "pytest", "-q", "-p", "no:cacheprovider", "-n", "8", "--timeout=900"], cwd=patched,
                   env=dict(os.environ, PYTHONPATH=patched, PYTHONDONTWRITEBYTECODE="1"), timeout=3600)
            res["tests_exit"] = t.returncode
            res["tests_tail"] = t.stdout.strip().split("\n")[-1][:200]
        res["checks"] = {}
        for c in checks:
            env = dict(os.environ, J2M_VERIF_REPO=patched, VERIF_TIER=tier, J2M_VERIF_EVIDENCE_DIR=os.path.join(tmp, "ev"),
                       J2M_VERIF_REPLAY_DIR=os.path.join(tmp, "rp"))
            t0 = time.time()
            r = sh([os.path.join(HERE, "bin", "check"), c], env=env, timeout=7200)
            viol = [ln.strip() for ln in r.stdout.split("\n") if ln.startswith("  mechanism=")]
            notes = [ln.strip()[:260] for ln in r.stdout.split("\n") if ln.startswith(("NOTE ", "INCONCLUSIVE "))]
            res["checks"][c] = {"exit": r.returncode, "wall_s": round(time.time() - t0, 1), "mechanisms": [v[:260] for v in viol[:4]]}
            if notes:
                res["checks"][c]["notes"] = notes[:3]
        if MERGE:
            # re-run of some checks only: keep what the other checks reported in the earlier evaluation of this patch
            prev = os.path.join(sdir, "result.json")
            if os.path.exists(prev):
                try:
                    old_checks = json.load(open(prev)).get("checks") or {}
                    res["checks"] = {**old_checks, **res["checks"]}
                except Exception:
                    pass
        res["caught_by"] = sorted(c for c, x in res["checks"].items() if x["exit"] == 1)
        return res
    finally:
        shutil.rmtree(tmp, ignore_errors=True)
        with open(os.path.join(sdir, "result.json"), "w") as f:
            json.dump(res, f, indent=1)


def main(argv):
    checks = None
    skip_tests = "--skip-tests" in argv
    tier = "quick"
    seeds = []
    it = iter(argv)
    for a in it:
        if a == "--checks":
            checks = next(it).split(",")
        elif a == "--all-checks":
            checks = ALL
        elif a == "--tier":
            tier = next(it)
        elif a == "--dir":
            global SEED_DIR
            SEED_DIR = next(it)
        elif a == "--skip-tests":
            pass
        elif a == "--merge-result":
            global MERGE
            MERGE = True
        else:
            seeds.append(a)
    for s in seeds:
        meta_path = os.path.join(HERE, SEED_DIR, s, "meta.json")
        meta = json.load(open(meta_path)) if os.path.exists(meta_path) else {}
        cs = checks or sorted(set([meta.get("property", s[:3])] + meta.get("also_run", [])))
        res = evaluate(s, cs, skip_tests, tier)
        print(s, "applies" if res.get("patch_applies") else "NOAPPLY", "tests:", res.get("tests_tail", "-"),
              "demo:", res.get("demo_unpatched_exit"), "->", res.get("demo_patched_exit"), "caught_by:", res.get("caught_by"))


if __name__ == "__main__":
    main(sys.argv[1:])
