#!/usr/bin/env python3
"""runs only the repository's own test suite on a scratch copy of /repo's HEAD with a seed's patch applied and merges the outcome
(tests_exit / tests_tail) into seeded/<id>/result.json and result_first.json.   usage: tools_suite_only.py [-n N] seed_id..."""
import json, os, shutil, subprocess, sys, tempfile
HERE = os.path.dirname(os.path.abspath(__file__))
sys.path.insert(0, HERE)
from tools_seeded import make_copy, PY
args = sys.argv[1:]
n = "4"
if args[:1] == ["-n"]:
    n, args = args[1], args[2:]
for seed in args:
    sdir = os.path.join(HERE, "seeded", seed)
    tmp = tempfile.mkdtemp(prefix="j2m_suite_")
    try:
        patched = os.path.join(tmp, "patched")
        make_copy(patched)
        subprocess.run(["git", "apply", os.path.join(sdir, "patch.diff")], cwd=patched, check=True)
        t = subprocess.run([PY, "-m", "pytest", "-q", "-p", "no:cacheprovider", "-n", n, "--timeout=900"], cwd=patched, capture_output=True, text=True,
                           env=dict(os.environ, PYTHONPATH=patched, PYTHONDONTWRITEBYTECODE="1"), timeout=3600)
        tail = t.stdout.strip().split("\n")[-1][:200]
        for name in ("result.json", "result_first.json"):
            p = os.path.join(sdir, name)
            if os.path.exists(p):
                r = json.load(open(p)); r["tests_exit"] = t.returncode; r["tests_tail"] = tail
                json.dump(r, open(p, "w"), indent=1)
        print(seed, t.returncode, tail, flush=True)
    finally:
        shutil.rmtree(tmp, ignore_errors=True)
