#!/usr/bin/env python3
"""Regenerates the defect tables (section 6) of DESIGN.md from known_findings.json."""
import json, os, re
HERE = os.path.dirname(os.path.abspath(__file__))
def esc(t): return t.replace("|", "\\|").replace("\n", " ")
kf = json.load(open(os.path.join(HERE, "known_findings.json")))
fixed = [f for f in kf["findings"] if f["status"] == "fixed"]
open_ = [f for f in kf["findings"] if f["status"] == "open"]
t1 = "| commit | first reported by | what failed |\n|--------|-------------------|-------------|\n"
for f in fixed:
    what = f["line"].split(" ", 3)[3]
    also = (" (+" + ",".join(f.get("also_observed_by") or []) + ")") if f.get("also_observed_by") else ""
    t1 += "| `%s` | %s%s | %s |\n" % (f["commit"], f["property"], also, esc(what))
t2 = "| property | mechanism (classifier) | what fails | why not repaired |\n|----------|------------------------|------------|------------------|\n"
for f in open_:
    t2 += "| %s | `%s` | %s | %s |\n" % (f["property"], f["mechanism"], esc(f["what"]), esc(f["why_not_fixed"]))
p = os.path.join(HERE, "DESIGN.md")
s = open(p).read()
s = re.sub(r"<!-- FIXED-TABLE -->.*?<!-- /FIXED-TABLE -->", lambda m: "<!-- FIXED-TABLE -->\n" + t1 + "<!-- /FIXED-TABLE -->", s, flags=re.S)
s = re.sub(r"<!-- OPEN-TABLE -->.*?<!-- /OPEN-TABLE -->", lambda m: "<!-- OPEN-TABLE -->\n" + t2 + "<!-- /OPEN-TABLE -->", s, flags=re.S)
# --- seeded changes table
import glob
rows = ""
for d in sorted(glob.glob(os.path.join(HERE, "seeded", "*"))):
    mp, rp = os.path.join(d, "meta.json"), os.path.join(d, "result.json")
    if not os.path.exists(mp):
        continue
    meta = json.load(open(mp))
    res = json.load(open(rp)) if os.path.exists(rp) else {}
    caught = ", ".join(res.get("caught_by") or []) or "**none**"
    if meta.get("superseded"):
        caught = "n/a"
    fp = os.path.join(d, "result_first.json")
    first = "-"
    if os.path.exists(fp):
        first = ", ".join(json.load(open(fp)).get("caught_by") or []) or "none"
    status = meta.get("status", "kept")
    rows += "| `%s` | %s | %s | %s | %s | %s | %s |\n" % (os.path.basename(d), meta.get("property"), esc(meta.get("summary", "")), esc(meta.get("needs_to_manifest", "")),
                                                       first, caught, esc(meta.get("note", status)))
t3 = ("| seed | property | change | needs, to manifest | caught at first measurement (rounds 3 and 4) | caught by (quick tier, final code) | note |\n"
      "|------|----------|--------|--------------------|---------------------|------------------------|------|\n" + rows)
s = re.sub(r"<!-- SEED-TABLE -->.*?<!-- /SEED-TABLE -->", lambda m: "<!-- SEED-TABLE -->\n" + t3 + "<!-- /SEED-TABLE -->", s, flags=re.S)
rows = ""
for d in sorted(glob.glob(os.path.join(HERE, "neutral", "*"))):
    mp, rp = os.path.join(d, "meta.json"), os.path.join(d, "result.json")
    if not os.path.exists(mp):
        continue
    meta = json.load(open(mp))
    res = json.load(open(rp)) if os.path.exists(rp) else {}
    if not res.get("patch_applies", False):
        outcome = "not evaluated (does not apply to the current HEAD)"
    else:
        al = res.get("caught_by") or []
        outcome = ("**alarms: " + ", ".join(al) + "**") if al else "all 19 checks silent; suite " + (res.get("tests_tail", "").split(" in ")[0] or "?")
    rows += "| `%s` | %s | %s | %s |\n" % (os.path.basename(d), esc(meta.get("summary", "")), outcome, esc(meta.get("note", "")))
t4 = "| change | what it rewrites | outcome | note |\n|--------|------------------|---------|------|\n" + rows
s = re.sub(r"<!-- NEUTRAL-TABLE -->.*?<!-- /NEUTRAL-TABLE -->", lambda m: "<!-- NEUTRAL-TABLE -->\n" + t4 + "<!-- /NEUTRAL-TABLE -->", s, flags=re.S)
open(p, "w").write(s)
print("tables:", len(fixed), "fixed,", len(open_), "open")
