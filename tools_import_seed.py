#!/usr/bin/env python3
"""copies a sub-agent's deliverables (/tmp/seed2/<ID>/SEED/change<k>/) to /verif/seeded/<ID>-<k>/ with a meta.json stub"""
import json, os, shutil, sys
HERE = os.path.dirname(os.path.abspath(__file__))
for pid in sys.argv[1:]:
    for k in (1, 2, 3):
        src = f"/tmp/seed2/{pid}/SEED/change{k}"
        if not os.path.isdir(src):
            continue
        dst = os.path.join(HERE, "seeded", f"{pid}-r2-{k}")
        os.makedirs(dst, exist_ok=True)
        for f in os.listdir(src):
            if os.path.isfile(os.path.join(src, f)) and not f.endswith(".pyc"):
                shutil.copy(os.path.join(src, f), os.path.join(dst, f))
        mp = os.path.join(dst, "meta.json")
        if not os.path.exists(mp):
            json.dump({"property": pid, "source": "independent sub-agent given only the property text and a scratch worktree",
                       "needs_to_manifest": "see notes.md", "also_run": []}, open(mp, "w"), indent=1)
        print("imported", dst, sorted(os.listdir(dst)))
