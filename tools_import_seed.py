#!/usr/bin/env python3
"""copies a sub-agent's deliverables (/tmp/seed<round>/<ID>/SEED/change<k>/) to /verif/seeded/<ID>-r<round>-<k>/ with a meta.json stub
usage: tools_import_seed.py <round> ID..."""
import json, os, shutil, sys
HERE = os.path.dirname(os.path.abspath(__file__))
RND = sys.argv[1]
for pid in sys.argv[2:]:
    for k in (1, 2, 3):
        src = f"/tmp/seed{RND}/{pid}/SEED/change{k}"
        if not os.path.isdir(src):
            continue
        dst = os.path.join(HERE, "seeded", f"{pid}-r{RND}-{k}")
        os.makedirs(dst, exist_ok=True)
        for f in os.listdir(src):
            if os.path.isfile(os.path.join(src, f)) and not f.endswith(".pyc"):
                shutil.copy(os.path.join(src, f), os.path.join(dst, f))
        mp = os.path.join(dst, "meta.json")
        if not os.path.exists(mp):
            json.dump({"property": pid, "round": int(RND), "source": "independent sub-agent given only the property text and a scratch worktree",
                       "needs_to_manifest": "see notes.md", "also_run": []}, open(mp, "w"), indent=1)
        print("imported", dst, sorted(os.listdir(dst)))
